package builtin

import (
	"strings"
	"ti/base"
	"ti/verifapi"
)

// every name ConvertToBuiltinT knows, plus "Integer", a plain class and a namespaced class
var verifAtoms = append(append([]string{}, AllTypeNames...), "Integer", "Foo", "Ns::Foo")

// union members that are themselves written in compact notation
var verifCompound = []string{"[String]", "?Int", "[Foo]", "?Foo"}

func verifAtom(name string) string {
	return verifapi.Pick(verifapi.Int(name, 0, len(verifAtoms)-1), verifAtoms...)
}

// verifNs: class-label suffix telling whether a namespaced class name is involved.
func verifNs(names ...string) string {
	for _, n := range names {
		if strings.Contains(n, "::") {
			return "/namespaced-class-name"
		}
	}
	for _, n := range names {
		if strings.HasPrefix(n, "[") || strings.HasPrefix(n, "?") {
			return "/compact-notation-member"
		}
	}
	return "/plain-name"
}

func verifEqTs(x, y []base.T) bool {
	if len(x) != len(y) {
		return false
	}
	for i := range x {
		if !base.VerifEqualT(&x[i], &y[i]) {
			return false
		}
	}
	return true
}

func verifArgs(spec TypeSpec, isDefault, isAsterisk bool) []base.T {
	return parseArguments([]MethodArgument{{Type: spec, IsDefault: isDefault, IsAsterisk: isAsterisk}})
}

// VerifNotation: C21. Both notations of each documented equivalence go through the real
// parseReturnType / parseArguments / parseTypeString / ConvertToBuiltinT and the resulting
// T values are compared field by field.
func VerifNotation(n int) {
	a := verifAtom("a")
	verifapi.Witness("a", a)

	if n >= 2 {
		all := append(append([]string{}, verifAtoms...), verifCompound...)
		b := verifapi.Pick(verifapi.Concrete(verifapi.Int("b", 0, len(all)-1)), all...)
		// "[T]|A" is unambiguous; "?T|A" is not (the prefix could bind the whole union), so
		// ?-members only appear in second position
		if strings.HasPrefix(b, "[") && verifapi.Concrete(verifapi.Int("swap", 0, 1)) == 1 {
			a, b = b, a
		}
		verifapi.Witness("a", a)
		verifapi.Witness("b", b)
		// "A|B" == ["A","B"], as return type and as argument type
		r1 := parseReturnType(MethodReturn{Type: TypeSpec{a + "|" + b}})
		r2 := parseReturnType(MethodReturn{Type: TypeSpec{a, b}})
		verifapi.Classify("C21/union-notation-differs-as-return-type" + verifNs(a, b))
		verifapi.Assert(base.VerifEqualT(&r1, &r2), "C21-union-return")
		x1 := verifArgs(TypeSpec{a + "|" + b}, false, false)
		x2 := verifArgs(TypeSpec{a, b}, false, false)
		verifapi.Classify("C21/union-notation-differs-as-argument" + verifNs(a, b))
		verifapi.Assert(verifEqTs(x1, x2), "C21-union-argument")
		verifapi.Reach("compared-pairs")
		return
	}

	// "?T" as return == [T, NilClass]
	o1 := parseReturnType(MethodReturn{Type: TypeSpec{"?" + a}})
	o2 := parseReturnType(MethodReturn{Type: TypeSpec{a, "NilClass"}})
	verifapi.Classify("C21/optional-prefix-differs-as-return-type" + verifNs(a))
	verifapi.Assert(base.VerifEqualT(&o1, &o2), "C21-optional-return")

	// "?T" as argument == T with is_default ; "*T" == T with is_asterisk
	d1 := verifArgs(TypeSpec{"?" + a}, false, false)
	d2 := verifArgs(TypeSpec{a}, true, false)
	verifapi.Classify("C21/optional-prefix-differs-from-is_default-argument" + verifNs(a))
	verifapi.Assert(verifEqTs(d1, d2), "C21-default-argument")
	s1 := verifArgs(TypeSpec{"*" + a}, false, false)
	s2 := verifArgs(TypeSpec{a}, false, true)
	verifapi.Classify("C21/asterisk-prefix-differs-from-is_asterisk-argument" + verifNs(a))
	verifapi.Assert(verifEqTs(s1, s2), "C21-asterisk-argument")

	// "[T]" == array of T: the named array types are the long notation
	e := verifapi.Int("elem", 0, 2)
	el := verifapi.Pick(e, "String", "Int", "Float")
	named := verifapi.Pick(e, "StringArray", "IntArray", "FloatArray")
	a1 := parseTypeString("[" + el + "]")
	a2 := parseTypeString(named)
	verifapi.Classify("C21/bracket-array-differs-from-named-array")
	verifapi.Assert(base.VerifEqualT(&a1, &a2), "C21-array")

	// "Int" == "Integer"
	i1 := parseTypeString("Int")
	i2 := parseTypeString("Integer")
	verifapi.Classify("C21/Int-differs-from-Integer")
	verifapi.Assert(base.VerifEqualT(&i1, &i2), "C21-int-integer")

	// OptionalX == [X, NilClass] ; DefaultX as argument == X with is_default
	x := verifapi.Int("x", 0, 2)
	xn := verifapi.Pick(x, "String", "Int", "Float")
	p1 := parseReturnType(MethodReturn{Type: TypeSpec{"Optional" + xn}})
	p2 := parseReturnType(MethodReturn{Type: TypeSpec{xn, "NilClass"}})
	verifapi.Classify("C21/OptionalX-differs-from-expansion")
	verifapi.Assert(base.VerifEqualT(&p1, &p2), "C21-optionalx")
	y := verifapi.Int("y", 0, 4)
	yn := verifapi.Pick(y, "String", "Int", "Float", "Bool", "Untyped")
	q1 := verifArgs(TypeSpec{"Default" + yn}, false, false)
	q2 := verifArgs(TypeSpec{yn}, true, false)
	verifapi.Classify("C21/DefaultX-differs-from-is_default")
	verifapi.Assert(verifEqTs(q1, q2), "C21-defaultx")
	verifapi.Reach("compared")
}
