package builtin

import (
	"ti/base"
	"ti/verifapi"
)

var verifAtoms = []string{"Int", "Integer", "String", "NilClass", "Foo", "Bool", "Untyped", "Float", "Symbol", "DefaultInt", "OptionalString", "Array", "Self", "Unify"}

func verifAtom(name string) string {
	return verifapi.Pick(verifapi.Int(name, 0, len(verifAtoms)-1), verifAtoms...)
}

func verifEqTs(x, y []base.T) bool {
	if len(x) != len(y) {
		return false
	}
	for i := range x {
		if !base.VerifEqualT(&x[i], &y[i]) {
			return false
		}
	}
	return true
}

func VerifNotation(n int) {
	a := verifAtom("a")
	b := verifAtom("b")

	// "A|B" == ["A","B"] as return type and as argument type
	r1 := parseReturnType(MethodReturn{Type: TypeSpec{a + "|" + b}})
	r2 := parseReturnType(MethodReturn{Type: TypeSpec{a, b}})
	verifapi.Assert(base.VerifEqualT(&r1, &r2), "C21-union-return")
	x1 := parseArguments([]MethodArgument{{Type: TypeSpec{a + "|" + b}}})
	x2 := parseArguments([]MethodArgument{{Type: TypeSpec{a, b}}})
	verifapi.Assert(verifEqTs(x1, x2), "C21-union-argument")

	// "?T" as return == [T, NilClass]
	o1 := parseReturnType(MethodReturn{Type: TypeSpec{"?" + a}})
	o2 := parseReturnType(MethodReturn{Type: TypeSpec{a, "NilClass"}})
	verifapi.Assert(base.VerifEqualT(&o1, &o2), "C21-optional-return")

	// "?T" as argument == T with is_default ; "*T" == T with is_asterisk
	d1 := parseArguments([]MethodArgument{{Type: TypeSpec{"?" + a}}})
	d2 := parseArguments([]MethodArgument{{Type: TypeSpec{a}, IsDefault: true}})
	verifapi.Assert(verifEqTs(d1, d2), "C21-default-argument")
	s1 := parseArguments([]MethodArgument{{Type: TypeSpec{"*" + a}}})
	s2 := parseArguments([]MethodArgument{{Type: TypeSpec{a}, IsAsterisk: true}})
	verifapi.Assert(verifEqTs(s1, s2), "C21-asterisk-argument")
	verifapi.Reach("compared")
}
