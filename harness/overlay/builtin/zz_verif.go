package builtin

import "ti/base"

func VerifInstallSym(names ...string) {
	d := NewDefineBuiltinMethod("Builtin", "Sym")
	base.BuiltinClasses = append(base.BuiltinClasses, "Sym")
	for _, n := range names {
		d.defineBuiltinStaticMethod("Builtin", n, nil, *base.VerifSymValue(n))
	}
	classNode := base.ClassNode{Frame: "Builtin", Class: "Sym"}
	base.ClassInheritanceMap[classNode] =
		append(base.ClassInheritanceMap[classNode], base.ClassNode{Frame: "Builtin", Class: ""})
	d.SetDefinedClass()
}

// VerifDefineInstance declares an instance method through the real loader path
// (setupMethodArgs + defineBuiltinInstanceMethod) and returns its method T.
func VerifDefineInstance(class, method string, args []base.T, ret base.T) *base.T {
	d := NewDefineBuiltinMethod("Builtin", class)
	d.defineBuiltinInstanceMethod("Builtin", method, args, ret)
	return base.GetMethodT("Builtin", class, method, false)
}

// VerifArg builds a declared parameter the way parseArguments does.
func VerifArg(t base.T, key string, isDefault, isAsterisk bool) base.T {
	t.IsBuiltinAsterisk = isAsterisk
	t.SetIsBuiltin(true)
	if isDefault {
		t.SetHasDefault(true)
	}
	if key == "" {
		return t
	}
	return *base.MakeKeyValue(key, &t)
}

// VerifParseArgs feeds an emitted argument list through the real parseArguments.
func VerifParseArgs(types [][]string, keys []string, defs, asts []bool) []base.T {
	var args []MethodArgument
	for i := range types {
		args = append(args, MethodArgument{Type: TypeSpec(types[i]), Key: keys[i], IsDefault: defs[i], IsAsterisk: asts[i]})
	}
	return parseArguments(args)
}

// VerifInstallSymValues installs the verification-only builtin class `Sym` whose static
// methods return the given (possibly symbolic-kind) values, through the real loader path.
func VerifInstallSymValues(names []string, vals map[string]base.T) {
	d := NewDefineBuiltinMethod("Builtin", "Sym")
	base.BuiltinClasses = append(base.BuiltinClasses, "Sym")
	for _, n := range names {
		d.defineBuiltinStaticMethod("Builtin", n, nil, vals[n])
	}
	classNode := base.ClassNode{Frame: "Builtin", Class: "Sym"}
	base.ClassInheritanceMap[classNode] =
		append(base.ClassInheritanceMap[classNode], base.ClassNode{Frame: "Builtin", Class: ""})
	d.SetDefinedClass()
}

// VerifInstallSymKw adds Sym.kw(Integer, ka: Integer, kb: String, kc: Integer = default),
// declared the way the loader declares keyword parameters.
func VerifInstallSymKw() {
	d := NewDefineBuiltinMethod("Builtin", "Sym")
	args := parseArguments([]MethodArgument{
		{Type: TypeSpec{"Int"}},
		{Type: TypeSpec{"Int"}, Key: "ka:"},
		{Type: TypeSpec{"String"}, Key: "kb:"},
		{Type: TypeSpec{"Int"}, Key: "kc:", IsDefault: true},
	})
	d.defineBuiltinStaticMethod("Builtin", "kw", args, *base.MakeAnyInt())
}

// VerifLoadConfigAgain runs the real loader once more; the harness arranges (virtual file
// system) that only the extra file is visible, so this adds its declarations to the tables.
func VerifLoadConfigAgain() {
	if err := loadBuiltinFromJSON(); err != nil {
		panic("json loading error!")
	}
}
