package builtin

import "ti/base"

func VerifInstallSym(names ...string) {
	d := NewDefineBuiltinMethod("Builtin", "Sym")
	base.BuiltinClasses = append(base.BuiltinClasses, "Sym")
	for _, n := range names {
		d.defineBuiltinStaticMethod("Builtin", n, nil, *base.VerifSymValue(n))
	}
	classNode := base.ClassNode{Frame: "Builtin", Class: "Sym"}
	base.ClassInheritanceMap[classNode] =
		append(base.ClassInheritanceMap[classNode], base.ClassNode{Frame: "Builtin", Class: ""})
	d.SetDefinedClass()
}
