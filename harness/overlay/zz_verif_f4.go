package main

import (
	"os"
	"strings"
	"ti/base"
	"ti/builtin"
	"ti/cmd"
	"ti/verifapi"
)

// ---- F4: skeleton programs with symbolic leaves ----
//
// The program text is concrete (real lexer, real parser, four real rounds); the data are
// symbolic: `Sym.a`, `Sym.b`, `Sym.c` return values of solver-chosen plain kind, `Sym.u` a
// union of two distinct solver-chosen kinds, `Sym.w` a union of three.

type verifSym struct {
	ka, kb, kc int // kinds of Sym.a / Sym.b / Sym.c (0..5: NilClass Integer String Bool Float Symbol)
	u1, u2     int // kinds of Sym.u (distinct)
	w1, w2, w3 int // kinds of Sym.w (pairwise distinct)
	kn         int // kind of Sym.n (numeric leaf: Integer or Float)
	o1, o2, o3 int // Sym.o: a permutation of 0 NilClass, 1 VA, 2 VB (instances of user classes VA / VB)
}

// verifKindHi: symbolic kinds range over NilClass, Integer, String, Bool (indices 0..3) by
// default; jobs that need the wider domain set it to 5 (adds Float, Symbol).
var verifKindHi = 3

// verifNoWiden: jobs whose skeleton family is already large keep the 4-kind domain in the
// thorough tier.
var verifNoWiden = false

// verifInstallSym installs only the named Sym methods (every installed symbolic value is
// rendered by appendSignature at the end of the run, so unused ones would only fork paths).
func verifInstallSym(names ...string) *verifSym {
	if verifapi.Thorough() && verifKindHi == 3 && !verifNoWiden {
		verifKindHi = 5 // thorough tier: leaf kinds also range over Float and Symbol
	}
	s := &verifSym{}
	vals := map[string]base.T{}
	for _, n := range names {
		switch n {
		case "a":
			s.ka = verifapi.Int("ka", 0, verifKindHi)
			vals[n] = *base.VerifKindT(s.ka)
		case "b":
			s.kb = verifapi.Int("kb", 0, verifKindHi)
			vals[n] = *base.VerifKindT(s.kb)
		case "c":
			s.kc = verifapi.Int("kc", 0, verifKindHi)
			vals[n] = *base.VerifKindT(s.kc)
		case "n":
			s.kn = verifapi.PickInt(verifapi.Int("kn", 0, 1), base.VkInt, base.VkFloat)
			vals[n] = *base.VerifKindT(s.kn)
		case "o":
			s.o1 = verifapi.Int("o1", 0, 2)
			s.o2 = verifapi.Int("o2", 0, 2)
			s.o3 = verifapi.Int("o3", 0, 2)
			verifapi.Assume(s.o1 != s.o2 && s.o1 != s.o3 && s.o2 != s.o3)
			vals[n] = *base.MakeUnion([]base.T{*base.VerifObjKindT(s.o1), *base.VerifObjKindT(s.o2), *base.VerifObjKindT(s.o3)})
		case "u":
			s.u1 = verifapi.Int("u1", 0, verifKindHi)
			s.u2 = verifapi.Int("u2", 0, verifKindHi)
			verifapi.Assume(s.u1 != s.u2)
			vals[n] = *base.MakeUnion([]base.T{*base.VerifKindT(s.u1), *base.VerifKindT(s.u2)})
		case "w":
			s.w1 = verifapi.Int("w1", 0, verifKindHi)
			s.w2 = verifapi.Int("w2", 0, verifKindHi)
			s.w3 = verifapi.Int("w3", 0, verifKindHi)
			verifapi.Assume(s.w1 != s.w2 && s.w1 != s.w3 && s.w2 != s.w3)
			vals[n] = *base.MakeUnion([]base.T{*base.VerifKindT(s.w1), *base.VerifKindT(s.w2), *base.VerifKindT(s.w3)})
		}
	}
	builtin.VerifInstallSymValues(names, vals)
	return s
}

func verifKN(k int) string { return base.VerifKindName(k) }

// verifRenderKinds: how a value whose possible kinds are ks (in order, duplicates removed)
// is rendered: the class name, or Union<A B ...>.
func verifRenderKinds(ks []int) string {
	var uniq []int
	for _, k := range ks {
		dup := false
		for _, u := range uniq {
			if u == k {
				dup = true
			}
		}
		if !dup {
			uniq = append(uniq, k)
		}
	}
	if len(uniq) == 1 {
		return verifKN(uniq[0])
	}
	s := "Union<"
	for i, k := range uniq {
		if i > 0 {
			s += " "
		}
		s += verifKN(k)
	}
	return s + ">"
}

// verifRun runs the program in diagnostics mode and returns its stdout.
func verifRun(src string) string {
	verifapi.CatchExit(func() { verifRunProgram(src, "./a.rb", cmd.NewExecuteFlags(), 0) })
	return verifapi.TakeStdout()
}

func verifRunFlags(src string, flags *cmd.ExecuteFlags, row int) string {
	verifapi.CatchExit(func() { verifRunProgram(src, "./a.rb", flags, row) })
	return verifapi.TakeStdout()
}

// verifLine returns the diagnostic text reported for a row ("" if none, "<many>" if several).
func verifLine(out string, row int) string {
	prefix := "./a.rb:::" + verifItoa(row) + ":::"
	res := ""
	n := 0
	if out == "" {
		return ""
	}
	for _, l := range strings.Split(strings.TrimSuffix(out, "\n"), "\n") {
		if strings.HasPrefix(l, prefix) {
			res = strings.TrimPrefix(l, prefix)
			n++
		}
	}
	if n > 1 {
		return "<many>"
	}
	return res
}

func verifItoa(i int) string {
	if i < 10 {
		return verifapi.Pick(i, "0", "1", "2", "3", "4", "5", "6", "7", "8", "9")
	}
	return verifItoa(i/10) + verifItoa(i%10)
}

// verifExpect asserts that the diagnostic reported for row equals want; the row and the
// expected text are recorded as witnesses so that the counterexample can be re-judged on the
// native binary's output.
func verifExpect(out string, id, class string, row int, want string) {
	verifapi.Witness(id+".row", verifItoa(row))
	verifapi.Witness(id+".expect", want)
	verifapi.Classify(class)
	verifapi.Assert(verifLine(out, row) == want, id)
}

// ---- C10: narrowing ----

var verifCondClass = []string{"NilClass", "Integer", "String"}

// VerifNarrow: x = Sym.u (union of two distinct kinds); a conditional on x with a test from
// the property's list; probes in the then-branch, the else-branch and after `end`.
// Skeleton parameters (concretised): keyword if/unless, negation, tested class, an unrelated
// inner conditional in the then-branch (0 none, 1 `if y.nil?`), test form for NilClass.
func VerifNarrow(n int) {
	s := verifInstallSym("u")
	kw := verifapi.Concrete(verifapi.Int("kw", 0, 1))
	neg := verifapi.Concrete(verifapi.Int("neg", 0, 1))
	cls := verifapi.Concrete(verifapi.Int("cls", 0, 2))
	inner := verifapi.Concrete(verifapi.Int("inner", 0, n))
	keyword := []string{"if", "unless"}[kw]
	test := "x.is_a?(" + verifCondClass[cls] + ")"
	if cls == 0 {
		test = "x.nil?"
	}
	if neg == 1 {
		test = "!" + test
	}
	src := "x = Sym.u\ny = nil\n" + keyword + " " + test + "\n"
	row := 4
	thenRow := row
	src += "dbtp x\n"
	row++
	switch inner {
	case 1:
		src += "if y.nil?\n1\nend\n"
		row += 3
	case 2:
		src += "z = [1, 2].first\n"
		row++
	}
	src += "else\n"
	row++
	elseRow := row
	src += "dbtp x\n"
	row++
	src += "end\n"
	row++
	afterRow := row
	src += "dbtp x\n"
	verifapi.Witness("src", src)
	verifapi.WitnessList("Sym.u", verifKN(s.u1), verifKN(s.u2))

	out := verifRun(src)
	verifapi.Reach("ran")

	testKind := []int{base.VkNil, base.VkInt, base.VkString}[cls]
	// the branch taken when the test holds is `then` for `if`, `else` for `unless`; a
	// negated test swaps them
	posIsThen := (kw == 0) != (neg == 1)
	var admit, reject []int
	for _, k := range []int{s.u1, s.u2} {
		if k == testKind {
			admit = append(admit, k)
		} else {
			reject = append(reject, k)
		}
	}
	thenK, elseK := admit, reject
	if !posIsThen {
		thenK, elseK = reject, admit
	}
	shape := keyword + "/" + []string{"", "negated-"}[neg] + []string{"nil?", "is_a?(Integer)", "is_a?(String)"}[cls] + "/plain-branches"
	switch inner {
	case 1:
		// the unrelated inner conditional dominates: classify by it, not by the test form
		shape = keyword + "/unrelated-inner-conditional-in-then-branch"
	case 2:
		shape = keyword + "/unrelated-builtin-call-in-then-branch"
	}
	if len(thenK) > 0 {
		verifExpect(out, "C10-then", "C10/then-branch-type-wrong/"+shape, thenRow, verifRenderKinds(thenK))
	}
	if len(elseK) > 0 {
		verifExpect(out, "C10-else", "C10/else-branch-type-wrong/"+shape, elseRow, verifRenderKinds(elseK))
	}
	verifExpect(out, "C10-after", "C10/type-after-conditional-not-restored/"+shape, afterRow, verifRenderKinds([]int{s.u1, s.u2}))
}

// verifTest: the six test forms of the property on a variable name.
func verifTestText(v string, form int) string {
	return []string{v + ".nil?", "!" + v + ".nil?", v + ".is_a?(Integer)", "!" + v + ".is_a?(Integer)", v + ".is_a?(String)", "!" + v + ".is_a?(String)"}[form]
}

// verifTestAdmits: does a value of kind k pass test form?
func verifTestAdmits(form int, k int) bool {
	switch form {
	case 0:
		return k == base.VkNil
	case 1:
		return k != base.VkNil
	case 2:
		return k == base.VkInt
	case 3:
		return k != base.VkInt
	case 4:
		return k == base.VkString
	default:
		return k != base.VkString
	}
}

var verifTestName = []string{"nil?", "not-nil?", "is_a?(Integer)", "not-is_a?(Integer)", "is_a?(String)", "not-is_a?(String)"}

// VerifNarrowChain: `&&` chains. mode 0: both tests on x = Sym.w (three distinct kinds);
// mode 1: first test on x = Sym.w, second on y = Sym.u. Probes inside the branch and after
// `end` (the pre-conditional type must be back), followed by a second conditional on x whose
// branch type must again be computed from the original union.
func VerifNarrowChain(n int) {
	mode := verifapi.Concrete(verifapi.Int("mode", 0, 1))
	hiForm := 3 // nil?, !nil?, is_a?(Integer), !is_a?(Integer)
	verifKindHi = 2
	verifNoWiden = true
	if n >= 2 { // thorough: all six forms; kinds incl. Bool when both tests are on the same variable
		hiForm = 5
		if mode == 0 {
			verifKindHi = 3
		}
	}
	f1 := verifapi.Concrete(verifapi.Int("f1", 0, hiForm))
	f2 := verifapi.Concrete(verifapi.Int("f2", 0, hiForm))
	var s *verifSym
	src := ""
	second := "x"
	if mode == 0 {
		s = verifInstallSym("w")
		src = "x = Sym.w\ny = nil\n"
	} else {
		s = verifInstallSym("w", "u")
		src = "x = Sym.w\ny = Sym.u\n"
		second = "y"
	}
	src += "if " + verifTestText("x", f1) + " && " + verifTestText(second, f2) + "\n" // row 3
	src += "dbtp x\ndbtp y\n"                                                       // rows 4,5
	src += "end\n"                                                                   // row 6
	src += "dbtp x\ndbtp y\n"                                                        // rows 7,8
	src += "if !x.nil?\ndbtp x\nend\n"                                               // rows 9,10,11
	verifapi.Witness("src", src)
	verifapi.WitnessList("Sym.w", verifKN(s.w1), verifKN(s.w2), verifKN(s.w3))
	if mode == 1 {
		verifapi.WitnessList("Sym.u", verifKN(s.u1), verifKN(s.u2))
	}
	out := verifRun(src)
	verifapi.Reach("ran")

	xs := []int{s.w1, s.w2, s.w3}
	var xIn []int
	for _, k := range xs {
		ok := verifTestAdmits(f1, k)
		if mode == 0 {
			ok = ok && verifTestAdmits(f2, k)
		}
		if ok {
			xIn = append(xIn, k)
		}
	}
	pol := []string{"positive", "negated"}
	shape := "same-variable/" + pol[f1%2] + "-test-and-" + pol[f2%2] + "-test"
	if mode == 1 {
		shape = "two-variables/" + pol[f1%2] + "-test-and-" + pol[f2%2] + "-test"
	}
	verifapi.Witness("tests", verifTestName[f1]+" && "+verifTestName[f2])
	if len(xIn) > 0 {
		verifExpect(out, "C10-chain-then-x", "C10/and-chain/branch-type-of-first-variable-wrong/"+shape, 4, verifRenderKinds(xIn))
	}
	if mode == 1 {
		var yIn []int
		for _, k := range []int{s.u1, s.u2} {
			if verifTestAdmits(f2, k) {
				yIn = append(yIn, k)
			}
		}
		if len(yIn) > 0 {
			verifExpect(out, "C10-chain-then-y", "C10/and-chain/branch-type-of-second-variable-wrong/"+shape, 5, verifRenderKinds(yIn))
		}
		verifExpect(out, "C10-chain-after-y", "C10/and-chain/second-variable-not-restored/"+shape, 8, verifRenderKinds([]int{s.u1, s.u2}))
	}
	verifExpect(out, "C10-chain-after-x", "C10/and-chain/first-variable-not-restored/"+shape, 7, verifRenderKinds(xs))
	var notNil []int
	for _, k := range xs {
		if k != base.VkNil {
			notNil = append(notNil, k)
		}
	}
	verifExpect(out, "C10-chain-later-conditional", "C10/and-chain/later-conditional-narrows-from-wrong-type/"+shape, 10, verifRenderKinds(notNil))
}

var verifNarrowShapeNames = []string{"if-elsif-else", "nested-conditionals-on-one-variable", "parameter-inside-method-body", "unless-else", "conditional-inside-block", "conditional-after-conditional", "elsif-on-second-variable"}

// VerifNarrowShapes: x = Sym.w (three distinct kinds) narrowed by conditionals of other shapes
// than VerifNarrow's: elsif chains, a conditional nested in a branch, a method parameter, a
// conditional inside a block, two conditionals in sequence. The expected type of every probe
// is computed from which kinds pass the tests that guard it.
func VerifNarrowShapes(n int) {
	sk := verifapi.Concrete(verifapi.Int("skeleton", 0, len(verifNarrowShapeNames)-1))
	hiForm := 3
	verifKindHi = 2
	verifNoWiden = true
	if n >= 2 {
		hiForm = 5
	}
	f1 := verifapi.Concrete(verifapi.Int("f1", 0, hiForm))
	f2 := verifapi.Concrete(verifapi.Int("f2", 0, hiForm))
	names := []string{"w"}
	if sk == 6 {
		names = []string{"w", "u"}
	}
	s := verifInstallSym(names...)
	verifapi.WitnessList("Sym.w", verifKN(s.w1), verifKN(s.w2), verifKN(s.w3))
	if sk == 6 {
		verifapi.WitnessList("Sym.u", verifKN(s.u1), verifKN(s.u2))
	}
	xs := []int{s.w1, s.w2, s.w3}
	sel := func(ks []int, pred func(k int) bool) []int {
		var out []int
		for _, k := range ks {
			if pred(k) {
				out = append(out, k)
			}
		}
		return out
	}
	t1 := func(k int) bool { return verifTestAdmits(f1, k) }
	t2 := func(k int) bool { return verifTestAdmits(f2, k) }
	type probe struct {
		id   string
		row  int
		ks   []int
		what string
	}
	var probes []probe
	src := ""
	switch sk {
	case 0:
		src = "x = Sym.w\nif " + verifTestText("x", f1) + "\ndbtp x\nelsif " + verifTestText("x", f2) + "\ndbtp x\nelse\ndbtp x\nend\ndbtp x\n"
		probes = []probe{{"C10-s-then", 3, sel(xs, t1), "then-branch-type-wrong"},
			{"C10-s-elsif", 5, sel(xs, func(k int) bool { return !t1(k) && t2(k) }), "elsif-branch-type-wrong"},
			{"C10-s-else", 7, sel(xs, func(k int) bool { return !t1(k) && !t2(k) }), "else-branch-type-wrong"},
			{"C10-s-after", 9, xs, "type-after-conditional-not-restored"}}
	case 1:
		src = "x = Sym.w\nif " + verifTestText("x", f1) + "\ndbtp x\nif " + verifTestText("x", f2) + "\ndbtp x\nelse\ndbtp x\nend\ndbtp x\nend\ndbtp x\n"
		in1 := sel(xs, t1)
		probes = []probe{{"C10-s-then", 3, in1, "then-branch-type-wrong"},
			{"C10-s-inner-then", 5, sel(in1, t2), "inner-then-branch-type-wrong"},
			{"C10-s-inner-else", 7, sel(in1, func(k int) bool { return !t2(k) }), "inner-else-branch-type-wrong"},
			{"C10-s-inner-after", 9, in1, "outer-narrowing-lost-after-inner-conditional"},
			{"C10-s-after", 11, xs, "type-after-conditional-not-restored"}}
		if len(in1) == 0 {
			probes = probes[4:]
		}
	case 2:
		src = "def mm(v)\nif " + verifTestText("v", f1) + "\ndbtp v\nelse\ndbtp v\nend\ndbtp v\nend\nmm(Sym.w)\n"
		probes = []probe{{"C10-s-then", 3, sel(xs, t1), "then-branch-type-wrong"},
			{"C10-s-else", 5, sel(xs, func(k int) bool { return !t1(k) }), "else-branch-type-wrong"},
			{"C10-s-after", 7, xs, "type-after-conditional-not-restored"}}
	case 3:
		src = "x = Sym.w\nunless " + verifTestText("x", f1) + "\ndbtp x\nelse\ndbtp x\nend\ndbtp x\n"
		probes = []probe{{"C10-s-then", 3, sel(xs, func(k int) bool { return !t1(k) }), "then-branch-type-wrong"},
			{"C10-s-else", 5, sel(xs, t1), "else-branch-type-wrong"},
			{"C10-s-after", 7, xs, "type-after-conditional-not-restored"}}
	case 4:
		src = "x = Sym.w\na = [1]\na.each do |e|\nif " + verifTestText("x", f1) + "\ndbtp x\nend\ndbtp x\nend\ndbtp x\n"
		probes = []probe{{"C10-s-then", 5, sel(xs, t1), "then-branch-type-wrong"},
			{"C10-s-after", 7, xs, "type-after-conditional-not-restored"},
			{"C10-s-after-block", 9, xs, "type-after-conditional-not-restored"}}
	case 5:
		src = "x = Sym.w\nif " + verifTestText("x", f1) + "\ndbtp x\nend\nif " + verifTestText("x", f2) + "\ndbtp x\nelse\ndbtp x\nend\ndbtp x\n"
		probes = []probe{{"C10-s-then", 3, sel(xs, t1), "then-branch-type-wrong"},
			{"C10-s-second-then", 6, sel(xs, t2), "later-conditional-narrows-from-wrong-type"},
			{"C10-s-second-else", 8, sel(xs, func(k int) bool { return !t2(k) }), "later-conditional-narrows-from-wrong-type"},
			{"C10-s-after", 10, xs, "type-after-conditional-not-restored"}}
	case 6:
		ys := []int{s.u1, s.u2}
		src = "x = Sym.w\ny = Sym.u\nif " + verifTestText("x", f1) + "\ndbtp x\ndbtp y\nelsif " + verifTestText("y", f2) + "\ndbtp x\ndbtp y\nelse\ndbtp x\ndbtp y\nend\ndbtp x\ndbtp y\n"
		notT1 := sel(xs, func(k int) bool { return !t1(k) })
		probes = []probe{{"C10-s-then", 4, sel(xs, t1), "then-branch-type-wrong"},
			{"C10-s-then-y", 5, ys, "unrelated-variable-narrowed"},
			{"C10-s-elsif", 7, notT1, "elsif-branch-type-wrong"},
			{"C10-s-elsif-y", 8, sel(ys, t2), "elsif-branch-type-wrong"},
			{"C10-s-else", 10, notT1, "else-branch-type-wrong"},
			{"C10-s-else-y", 11, sel(ys, func(k int) bool { return !t2(k) }), "else-branch-type-wrong"},
			{"C10-s-after", 13, xs, "type-after-conditional-not-restored"},
			{"C10-s-after-y", 14, ys, "type-after-conditional-not-restored"}}
	}
	verifapi.Witness("src", src)
	verifapi.Witness("tests", verifTestName[f1]+" ; "+verifTestName[f2])
	out := verifRun(src)
	verifapi.Reach("ran")
	verifapi.Witness("engine-output", out)
	pol := []string{"positive", "negated"}
	shape := verifNarrowShapeNames[sk] + "/" + pol[f1%2] + "-first-test"
	if sk == 0 || sk == 1 || sk == 5 || sk == 6 {
		shape += "-" + pol[f2%2] + "-second-test"
	}
	for _, p := range probes {
		if len(p.ks) == 0 {
			continue // no kind reaches this branch: the statement makes no claim
		}
		verifExpect(out, p.id, "C10/"+p.what+"/"+shape, p.row, verifRenderKinds(p.ks))
	}
}

var verifObjTestText = []string{"x.nil?", "!x.nil?", "x.is_a?(Va)", "!x.is_a?(Va)", "x.is_a?(Vb)", "!x.is_a?(Vb)"}
var verifObjTestName = []string{"nil?", "not-nil?", "is_a?(Va)", "not-is_a?(Va)", "is_a?(Vb)", "not-is_a?(Vb)"}

func verifObjTestAdmits(form, k int) bool {
	return (k == form/2) == (form%2 == 0)
}

func verifON(i int) string { return verifapi.Pick(i, "NilClass", "Va", "Vb") }

func verifRenderObjs(ks []int) string {
	if len(ks) == 1 {
		return verifON(ks[0])
	}
	s := "Union<"
	for i, k := range ks {
		if i > 0 {
			s += " "
		}
		s += verifON(k)
	}
	return s + ">"
}

// VerifNarrowObjects: x = Sym.o, a union of NilClass and instances of two user classes Va, Vb
// (every order), narrowed by if T1 / elsif T2 / else with T over nil? and is_a?(Va|Vb) and
// their negations; plus a concrete union holding a container (Array<Integer>).
func VerifNarrowObjects(n int) {
	sk := verifapi.Concrete(verifapi.Int("skeleton", 0, 1))
	if sk == 1 {
		s := verifInstallSym("a")
		verifapi.WitnessList("Sym.a", verifKN(s.ka))
		src := "x = true ? [1] : (true ? \"s\" : 1.5)\ny = Sym.a\nif x.is_a?(Array)\ndbtp x\nelse\ndbtp x\nend\ndbtp x\ndbtp y\n"
		verifapi.Witness("src", src)
		out := verifRun(src)
		verifapi.Reach("ran")
		verifExpect(out, "C10-o-then", "C10/then-branch-type-wrong/union-with-array-variant", 4, "Array<Integer>")
		verifExpect(out, "C10-o-else", "C10/else-branch-type-wrong/union-with-array-variant", 6, "Union<String Float>")
		verifExpect(out, "C10-o-after", "C10/type-after-conditional-not-restored/union-with-array-variant", 8, "Union<Array<Integer> String Float>")
		verifExpect(out, "C10-o-other", "C10/unrelated-variable-narrowed/union-with-array-variant", 9, verifKN(s.ka))
		return
	}
	f1 := verifapi.Concrete(verifapi.Int("f1", 0, 5))
	f2 := verifapi.Concrete(verifapi.Int("f2", 0, 5))
	s := verifInstallSym("o")
	verifapi.WitnessList("Sym.o", verifON(s.o1), verifON(s.o2), verifON(s.o3))
	xs := []int{s.o1, s.o2, s.o3}
	src := "class Va\ndef va_m\n1\nend\nend\nclass Vb\ndef vb_m\n2\nend\nend\nx = Sym.o\nif " + verifObjTestText[f1] + "\ndbtp x\nelsif " + verifObjTestText[f2] + "\ndbtp x\nelse\ndbtp x\nend\ndbtp x\n"
	verifapi.Witness("src", src)
	verifapi.Witness("tests", verifObjTestName[f1]+" ; "+verifObjTestName[f2])
	out := verifRun(src)
	verifapi.Reach("ran")
	verifapi.Witness("engine-output", out)
	var thenK, elsifK, elseK []int
	for _, k := range xs {
		switch {
		case verifObjTestAdmits(f1, k):
			thenK = append(thenK, k)
		case verifObjTestAdmits(f2, k):
			elsifK = append(elsifK, k)
		default:
			elseK = append(elseK, k)
		}
	}
	pol := []string{"positive", "negated"}
	shape := "user-class-instances/" + pol[f1%2] + "-first-test-" + pol[f2%2] + "-second-test"
	if len(thenK) > 0 {
		verifExpect(out, "C10-o-then", "C10/then-branch-type-wrong/"+shape, 13, verifRenderObjs(thenK))
	}
	if len(elsifK) > 0 {
		verifExpect(out, "C10-o-elsif", "C10/elsif-branch-type-wrong/"+shape, 15, verifRenderObjs(elsifK))
	}
	if len(elseK) > 0 {
		verifExpect(out, "C10-o-else", "C10/else-branch-type-wrong/"+shape, 17, verifRenderObjs(elseK))
	}
	verifExpect(out, "C10-o-after", "C10/type-after-conditional-not-restored/"+shape, 19, verifRenderObjs(xs))
}

// ---- metamorphic helpers ----

// verifRunTwo runs two programs from the same initial state (Snapshot/Restore) and returns
// their outputs.
func verifRunTwo(srcA, srcB string) (string, string) {
	mark := verifapi.Snapshot()
	a := verifRun(srcA)
	verifapi.Restore(mark)
	b := verifRun(srcB)
	return a, b
}

// verifDropShift normalises the output of a program into which `delta` lines were inserted
// before (1-based) row `at`: lines reported for the inserted rows are dropped and every later
// row is moved back by delta.
func verifDropShift(out string, at, delta int) string {
	if out == "" {
		return ""
	}
	res := ""
	for _, l := range strings.Split(strings.TrimSuffix(out, "\n"), "\n") {
		parts := strings.SplitN(l, ":::", 3)
		if len(parts) < 3 {
			res += l + "\n"
			continue
		}
		row := verifAtoi(parts[1])
		switch {
		case row >= at && row < at+delta:
			continue
		case row >= at+delta:
			row -= delta
		}
		res += parts[0] + ":::" + verifItoa(row) + ":::" + parts[2] + "\n"
	}
	return res
}

func verifAtoi(s string) int {
	n := 0
	for i := 0; i < len(s); i++ {
		n = n*10 + int(s[i]-'0')
	}
	return n
}

// verifExpectShift asserts that B (= A with `delta` lines inserted before row `at`) reports
// exactly what A reports, apart from the row shift. Witnesses let the driver re-judge the
// pair on the native binary.
func verifExpectShift(id, class, srcA, srcB, outA, outB string, at, delta int) {
	verifapi.Witness("srcA", srcA)
	verifapi.Witness("srcB", srcB)
	verifapi.Witness(id+".at", verifItoa(at))
	verifapi.Witness(id+".delta", verifItoa(delta))
	verifapi.Classify(class)
	verifapi.Assert(verifDropShift(outB, at, delta) == outA, id)
}

// ---- reference renderings (order-insensitive: every permutation is accepted) ----

func verifUniq(ks []int) []int {
	var uniq []int
	for _, k := range ks {
		dup := false
		for _, u := range uniq {
			if u == k {
				dup = true
			}
		}
		if !dup {
			uniq = append(uniq, k)
		}
	}
	return uniq
}

func verifPerms(ks []int) [][]int {
	if len(ks) <= 1 {
		return [][]int{ks}
	}
	var out [][]int
	for i := range ks {
		var rest []int
		for j := range ks {
			if j != i {
				rest = append(rest, ks[j])
			}
		}
		for _, p := range verifPerms(rest) {
			out = append(out, append([]int{ks[i]}, p...))
		}
	}
	return out
}

func verifJoinKinds(ks []int) string {
	s := ""
	for i, k := range ks {
		if i > 0 {
			s += " "
		}
		s += verifKN(k)
	}
	return s
}

// verifUnionAlts: acceptable renderings of a value whose possible kinds are ks.
func verifUnionAlts(ks []int) []string {
	u := verifUniq(ks)
	if len(u) == 1 {
		return []string{verifKN(u[0])}
	}
	var out []string
	for _, p := range verifPerms(u) {
		out = append(out, "Union<"+verifJoinKinds(p)+">")
	}
	return out
}

// verifArrayAlts: acceptable renderings of an array whose element kinds are ks.
func verifArrayAlts(ks []int) []string {
	var out []string
	for _, p := range verifPerms(verifUniq(ks)) {
		out = append(out, "Array<"+verifJoinKinds(p)+">")
	}
	return out
}

// verifExpectOneOf asserts that the diagnostic for row is one of the acceptable renderings.
func verifExpectOneOf(out string, id, class string, row int, alts []string) {
	verifapi.Witness(id+".row", verifItoa(row))
	verifapi.WitnessList(id+".expect", alts...)
	got := verifLine(out, row)
	ok := false
	for _, a := range alts {
		if got == a {
			ok = true
		}
	}
	verifapi.Classify(class)
	verifapi.Assert(ok, id)
}

// ---- C09: inferred types against the reference model ----

var verifInferNames = []string{"literal-kind", "reassignment", "array-literal", "array-index", "hash-literal-lookup", "push-growth", "shovel-growth",
	"optional-unify-first", "unify-shift", "self-flatten", "keyvaluearray-values", "self-dup", "copy-then-reassign", "chain-flatten-first",
	"array-of-same", "union-return", "hash-store-then-lookup", "union-return-delete", "receiver-after-first", "argument-return", "union-return-delete-two-values", "union-return-shift-unify",
	"last-with-count-self", "max-optional-unify", "shift-with-count-self", "array-times-integer-self", "array-times-string", "range-first-optional", "range-first-count-array",
	"integer-times-numeric", "at-optional-unify", "delete_at-optional-unify", "array-minus-self", "array-and-self", "index-assignment-growth", "reject-block-self",
	"collect-block-result-array", "hash-key-declared-union", "each-returns-self", "to_s-on-any-kind", "hash-store-new-key-values", "ternary-union", "interpolated-string",
	"multiple-assignment", "array-destructuring-assignment", "numeric-plus-integer", "min-optional-unify", "last-optional-unify", "string-optional-return", "integer-compare",
	"merge-of-hashes-with-union-values", "array-of-hashes-with-union-values", "merge!-of-hashes-with-union-values", "merge-of-hashes-with-scalar-values", "merge-adds-a-key"}

// VerifInfer: straight-line skeletons probed with dbtp; the expected type is computed from
// the kind variables by the reference model of the property statement.
func VerifInfer(n int) {
	sk := verifapi.Concrete(verifapi.Int("skeleton", 0, len(verifInferNames)-1))
	var s *verifSym
	src := ""
	name := verifInferNames[sk]
	cls := "C09/inferred-type-differs-from-reference/" + name
	type probe struct {
		row  int
		alts func() []string
	}
	var probes []probe
	arr := func() []string { return verifArrayAlts([]int{s.ka, s.kb}) }
	uni := func() []string { return verifUnionAlts([]int{s.ka, s.kb}) }
	uniNil := func() []string { return verifUnionAlts([]int{s.ka, s.kb, base.VkNil}) }
	one := func(k *int) func() []string { return func() []string { return []string{verifKN(*k)} } }
	fixed := func(t string) func() []string { return func() []string { return []string{t} } }
	s = &verifSym{}
	switch sk {
	case 0:
		s = verifInstallSym("a")
		src = "x = Sym.a\ndbtp x\n"
		probes = []probe{{2, one(&s.ka)}}
	case 1:
		s = verifInstallSym("a", "b")
		src = "x = Sym.a\nx = Sym.b\ndbtp x\n"
		probes = []probe{{3, one(&s.kb)}}
	case 2:
		s = verifInstallSym("a", "b")
		src = "a = [Sym.a, Sym.b]\ndbtp a\n"
		probes = []probe{{2, arr}}
	case 3:
		s = verifInstallSym("a", "b")
		src = "a = [Sym.a, Sym.b]\nb = a[0]\ndbtp b\n"
		probes = []probe{{3, uni}}
	case 4:
		s = verifInstallSym("a", "b")
		src = "h = {k: Sym.a, j: Sym.b}\nv = h[:k]\ndbtp v\n"
		probes = []probe{{3, one(&s.ka)}}
	case 5:
		s = verifInstallSym("a", "b")
		src = "a = [Sym.a]\na.push(Sym.b)\ndbtp a\n"
		probes = []probe{{3, arr}}
	case 6:
		s = verifInstallSym("a", "b")
		src = "a = [Sym.a]\na << Sym.b\ndbtp a\n"
		probes = []probe{{3, arr}}
	case 7:
		s = verifInstallSym("a", "b")
		src = "a = [Sym.a, Sym.b]\nb = a.first\ndbtp b\n"
		probes = []probe{{3, uniNil}}
	case 8:
		s = verifInstallSym("a", "b")
		src = "a = [Sym.a, Sym.b]\nb = a.shift\ndbtp b\n"
		probes = []probe{{3, uni}}
	case 9:
		s = verifInstallSym("a", "b")
		src = "a = [Sym.a, Sym.b]\nb = a.flatten\ndbtp b\n"
		probes = []probe{{3, arr}}
	case 10:
		s = verifInstallSym("a", "b")
		src = "h = {k: Sym.a, j: Sym.b}\nv = h.values\ndbtp v\n"
		probes = []probe{{3, arr}}
	case 11:
		s = verifInstallSym("a", "b")
		src = "a = [Sym.a, Sym.b]\nb = a.dup\ndbtp b\n"
		probes = []probe{{3, arr}}
	case 12:
		s = verifInstallSym("a", "b")
		src = "x = Sym.a\ny = x\nx = Sym.b\ndbtp y\ndbtp x\n"
		probes = []probe{{4, one(&s.ka)}, {5, one(&s.kb)}}
	case 13:
		s = verifInstallSym("a", "b")
		src = "a = [Sym.a, Sym.b]\nb = a.flatten.first\ndbtp b\n"
		probes = []probe{{3, uniNil}}
	case 14:
		s = verifInstallSym("a")
		src = "s = Sym.a\nt = [s, s]\ndbtp t\n"
		probes = []probe{{3, func() []string { return verifArrayAlts([]int{s.ka}) }}}
	case 15:
		s = verifInstallSym("u")
		src = "x = Sym.u\ndbtp x\n"
		probes = []probe{{2, func() []string { return verifUnionAlts([]int{s.u1, s.u2}) }}}
	case 16:
		s = verifInstallSym("a", "b")
		src = "h = {k: Sym.a}\nh[:k] = Sym.b\nv = h[:k]\ndbtp v\n"
		probes = []probe{{4, one(&s.kb)}}
	case 17:
		s = verifInstallSym("a")
		src = "h = {k: Sym.a}\nv = h.delete(:k)\ndbtp v\n"
		probes = []probe{{3, func() []string { return verifUnionAlts([]int{s.ka, base.VkNil}) }}}
	case 18:
		s = verifInstallSym("a", "b")
		src = "a = [Sym.a, Sym.b]\nb = a.first\ndbtp a\n"
		probes = []probe{{3, arr}}
	case 19:
		s = verifInstallSym("a")
		src = "x = p(Sym.a)\ndbtp x\n"
		probes = []probe{{2, one(&s.ka)}}
	case 20:
		s = verifInstallSym("a", "b")
		src = "h = {k: Sym.a, j: Sym.b}\nv = h.delete(:k)\ndbtp v\n"
		probes = []probe{{3, uniNil}}
	case 21:
		s = verifInstallSym("a", "b")
		src = "a = [Sym.a, Sym.b]\nb = a.pop\ndbtp b\n"
		probes = []probe{{3, uniNil}}
	case 22:
		s = verifInstallSym("a", "b")
		src = "a = [Sym.a, Sym.b]\nb = a.last(1)\ndbtp b\n"
		probes = []probe{{3, arr}}
	case 23:
		s = verifInstallSym("a", "b")
		src = "a = [Sym.a, Sym.b]\nb = a.max\ndbtp b\n"
		probes = []probe{{3, uniNil}}
	case 24:
		s = verifInstallSym("a", "b")
		src = "a = [Sym.a, Sym.b]\nb = a.shift(1)\ndbtp b\n"
		probes = []probe{{3, arr}}
	case 25:
		s = verifInstallSym("a", "b")
		src = "a = [Sym.a, Sym.b]\nb = a * 2\ndbtp b\n"
		probes = []probe{{3, arr}}
	case 26:
		s = verifInstallSym("a", "b")
		src = "a = [Sym.a, Sym.b]\nb = a * \",\"\ndbtp b\n"
		probes = []probe{{3, fixed("String")}}
	case 27:
		s = verifInstallSym("a")
		src = "r = (1..3)\nx = Sym.a\nh = r.first\ndbtp h\ndbtp x\n"
		probes = []probe{{4, func() []string { return verifUnionAlts([]int{base.VkInt, base.VkNil}) }}, {5, one(&s.ka)}}
	case 28:
		s = verifInstallSym("a")
		src = "r = (1..3)\nx = Sym.a\nh = r.first(2)\ndbtp h\ndbtp x\n"
		probes = []probe{{4, fixed("Array<Integer>")}, {5, one(&s.ka)}}
	case 29:
		s = verifInstallSym("n")
		src = "x = Sym.n\nj = 2 * x\ndbtp j\nk = 2 - x\ndbtp k\n"
		probes = []probe{{3, one(&s.kn)}, {5, one(&s.kn)}}
	case 30:
		s = verifInstallSym("a", "b")
		src = "a = [Sym.a, Sym.b]\nb = a.at(0)\ndbtp b\n"
		probes = []probe{{3, uniNil}}
	case 31:
		s = verifInstallSym("a", "b")
		src = "a = [Sym.a, Sym.b]\nb = a.delete_at(0)\ndbtp b\n"
		probes = []probe{{3, uniNil}}
	case 32:
		s = verifInstallSym("a", "b")
		src = "a = [Sym.a, Sym.b]\nb = a - [1]\ndbtp b\n"
		probes = []probe{{3, arr}}
	case 33:
		s = verifInstallSym("a", "b")
		src = "a = [Sym.a, Sym.b]\nb = a & [1]\ndbtp b\n"
		probes = []probe{{3, arr}}
	case 34:
		s = verifInstallSym("a", "b")
		src = "a = [Sym.a]\na[0] = Sym.b\ndbtp a\n"
		probes = []probe{{3, arr}}
	case 35:
		s = verifInstallSym("a", "b")
		src = "a = [Sym.a, Sym.b]\nb = a.reject do |z|\ntrue\nend\ndbtp b\n"
		probes = []probe{{5, arr}}
	case 36:
		s = verifInstallSym("a", "b")
		src = "a = [Sym.a, 1]\nb = a.collect do |z|\nSym.b\nend\ndbtp b\n"
		probes = []probe{{5, func() []string { return verifArrayAlts([]int{s.kb}) }}}
	case 37:
		s = verifInstallSym("a", "b")
		src = "h = {k: Sym.a, j: Sym.b}\nb = h.key(1)\ndbtp b\n"
		probes = []probe{{3, func() []string { return verifUnionAlts([]int{base.VkString, base.VkSymbol, base.VkNil}) }}}
	case 38:
		s = verifInstallSym("a", "b")
		src = "a = [Sym.a, Sym.b]\nb = a.each do |z|\nend\ndbtp b\n"
		probes = []probe{{4, arr}}
	case 39:
		s = verifInstallSym("a")
		src = "x = Sym.a\ny = x.to_s\ndbtp y\n"
		probes = []probe{{3, fixed("String")}}
	case 40:
		s = verifInstallSym("a", "b")
		src = "h = {k: Sym.a}\nh[:j] = Sym.b\nv = h.values\ndbtp v\n"
		probes = []probe{{4, arr}}
	case 41:
		s = verifInstallSym("a", "b")
		src = "x = true ? Sym.a : Sym.b\ndbtp x\n"
		probes = []probe{{2, uni}}
	case 42:
		s = verifInstallSym("a")
		src = "x = Sym.a\ny = \"v#{x}w\"\ndbtp y\n"
		probes = []probe{{3, fixed("String")}}
	case 43:
		s = verifInstallSym("a", "b")
		src = "d, e = Sym.a, Sym.b\ndbtp d\ndbtp e\n"
		probes = []probe{{2, one(&s.ka)}, {3, one(&s.kb)}}
	case 44:
		s = verifInstallSym("a", "b")
		src = "f = [Sym.a, Sym.b]\ng, j = f\ndbtp g\ndbtp j\n"
		probes = []probe{{3, one(&s.ka)}, {4, one(&s.kb)}}
	case 45:
		s = verifInstallSym("n")
		src = "x = Sym.n\nj = x + 2\ndbtp j\n"
		probes = []probe{{3, one(&s.kn)}}
	case 46:
		s = verifInstallSym("a", "b")
		src = "a = [Sym.a, Sym.b]\nb = a.min\ndbtp b\n"
		probes = []probe{{3, uniNil}}
	case 47:
		s = verifInstallSym("a", "b")
		src = "a = [Sym.a, Sym.b]\nb = a.last\ndbtp b\n"
		probes = []probe{{3, uniNil}}
	case 48:
		s = verifInstallSym("a")
		src = "x = Sym.a\nt = \"abc\".index(\"b\")\ndbtp t\nu = \"abc\".upcase!\ndbtp u\n"
		probes = []probe{{3, func() []string { return verifUnionAlts([]int{base.VkInt, base.VkNil}) }}, {5, func() []string { return verifUnionAlts([]int{base.VkString, base.VkNil}) }}}
	case 50:
		// the other side's value is the concrete union Float | Symbol
		s = verifInstallSym("u")
		src = "fs = true ? 1.5 : :s\nh = {k: Sym.u}\nm = h.merge({k: fs})\nv = m[:k]\ndbtp v\n"
		probes = []probe{{5, func() []string { return verifUnionAlts([]int{s.u1, s.u2, base.VkFloat, base.VkSymbol}) }}}
	case 51:
		s = verifInstallSym("u")
		src = "fs = true ? 1.5 : :s\nrows = [{k: Sym.u}, {k: fs}]\nv = rows[1][:k]\ndbtp v\n"
		probes = []probe{{4, func() []string { return verifUnionAlts([]int{s.u1, s.u2, base.VkFloat, base.VkSymbol}) }}}
	case 52:
		s = verifInstallSym("u")
		src = "fs = true ? 1.5 : :s\nh = {k: Sym.u}\nh.merge!({k: fs})\nv = h[:k]\ndbtp v\n"
		probes = []probe{{5, func() []string { return verifUnionAlts([]int{s.u1, s.u2, base.VkFloat, base.VkSymbol}) }}}
	case 53:
		// Ruby: the later value wins; ti may also keep both
		s = verifInstallSym("a", "b")
		src = "h = {k: Sym.a}\nm = h.merge({k: Sym.b})\nv = m[:k]\ndbtp v\n"
		probes = []probe{{4, func() []string { return append(verifUnionAlts([]int{s.ka, s.kb}), verifKN(s.kb)) }}}
	case 54:
		s = verifInstallSym("a", "b")
		src = "h = {k: Sym.a}\nm = h.merge({j: Sym.b})\nv = m[:j]\ndbtp v\nw = m[:k]\ndbtp w\n"
		probes = []probe{{4, one(&s.kb)}, {6, one(&s.ka)}}
	case 49:
		s = verifInstallSym("n")
		src = "x = Sym.n\nl = 2 <=> 3\ndbtp l\nm = 2 == x\ndbtp m\n"
		probes = []probe{{3, fixed("Integer")}, {5, fixed("Bool")}}
	}
	verifapi.Witness("src", src)
	verifapi.WitnessList("Sym.a", verifKN(s.ka))
	verifapi.WitnessList("Sym.b", verifKN(s.kb))
	verifapi.WitnessList("Sym.n", verifKN(s.kn))
	verifapi.WitnessList("Sym.u", verifKN(s.u1), verifKN(s.u2))
	verifapi.WitnessList("Sym.w", verifKN(s.w1), verifKN(s.w2), verifKN(s.w3))
	out := verifRun(src)
	verifapi.Reach("ran")
	for i, pr := range probes {
		verifExpectOneOf(out, "C09-probe"+verifItoa(i), cls, pr.row, pr.alts())
	}
}

// ---- C12: analysis never alters configured builtin signatures ----

type verifPP struct{ prog, probe, name string }

var verifStablePairs = []verifPP{
	{"x = Sym.u\nq = Sym.a\nz = x * q\n", "w = 2 * 3\ndbtp w\nv = \"s\" * 2\ndbtp v\nf = 1.5 * 2\ndbtp f\n", "multiply-on-union-receiver"},
	{"a = [Sym.a]\nb = a.first\n", "c = [1].first\ndbtp c\nd = [\"s\"].first\ndbtp d\n", "first-on-symbolic-array"},
	{"a = [1]\na.push(Sym.a)\n", "b = [2]\nb.push(3)\ndbtp b\n", "push-symbolic-element"},
	{"x = Sym.u\ny = x + Sym.a\n", "w = 2 + 3\ndbtp w\nv = \"s\" + \"t\"\ndbtp v\n", "plus-on-union-receiver"},
	{"x = Sym.u\ny = x.to_s\n", "w = 2.to_s\ndbtp w\nv = \"s\".to_s\ndbtp v\n", "to_s-on-union-receiver"},
	{"a = [Sym.a]\nb = a.pop\nc = a.shift\n", "d = [1].pop\ndbtp d\ne = [1].shift\ndbtp e\n", "pop-shift-on-symbolic-array"},
	{"h = {k: Sym.a}\nv = h.delete(:k)\nw = h.values\n", "g = {j: 1}\nu = g.values\ndbtp u\nt = g.delete(:j)\ndbtp t\n", "hash-delete-values"},
	{"a = [Sym.a, Sym.b]\nb = a + [1]\nc = a - [1]\n", "d = [1] + [2]\ndbtp d\ne = [1] - [2]\ndbtp e\n", "array-plus-minus"},
	{"x = Sym.u\ny = x == Sym.a\nz = x.nil?\n", "w = 2 == 3\ndbtp w\nv = 2.nil?\ndbtp v\n", "compare-on-union-receiver"},
	{"s = \"x\"\ns.upcase = Sym.a\n", "t = \"y\".upcase\ndbtp t\n", "assignment-through-builtin-call"},
	{"n = 5\nn.to_s ||= Sym.a\n", "t = 3.to_s\ndbtp t\n", "or-assignment-through-builtin-call"},
	{"s = \"a\"\ns.length, c = Sym.a, 2\n", "t = \"zz\".length\ndbtp t\n", "multiple-assignment-through-builtin-call"},
	{"a = [1]\na.first = Sym.a\na.length = Sym.a\n", "t = [2].first\ndbtp t\nu = [2].length\ndbtp u\n", "assignment-through-array-call"},
}

func verifCountLines(s string) int { return strings.Count(s, "\n") }

// VerifBuiltinStable: the probe alone and the probe after a program that calls builtin
// methods on symbolic / union receivers must report the same types (rows shifted), and the
// in-memory builtin method table must be unchanged by the program.
func VerifBuiltinStable(n int) {
	i := verifapi.Concrete(verifapi.Int("pair", 0, len(verifStablePairs)-1))
	pp := verifStablePairs[i]
	var need []string
	for _, nm := range []string{"a", "b", "u"} {
		if strings.Contains(pp.prog, "Sym."+nm) {
			need = append(need, nm)
		}
	}
	s := verifInstallSym(need...)
	verifapi.WitnessList("Sym.a", verifKN(s.ka))
	verifapi.WitnessList("Sym.b", verifKN(s.kb))
	verifapi.WitnessList("Sym.u", verifKN(s.u1), verifKN(s.u2))
	snap := base.VerifBuiltinSnapshot()
	mark := verifapi.Snapshot()
	alone := verifRun(pp.probe)
	verifapi.Restore(mark)
	after := verifRun(pp.prog + pp.probe)
	verifapi.Reach("ran")
	verifExpectShift("C12-probe", "C12/probe-type-depends-on-earlier-program/"+pp.name, pp.probe, pp.prog+pp.probe, alone, after, 1, verifCountLines(pp.prog))
	_ = snap
}

// verifWideProbe: one call of each of 44 shipped builtin methods (every special return form:
// Self, Unify, OptionalUnify, conditional, destructive, declared unions, block results) on
// fresh literal receivers, each probed with dbtp.
const verifWideProbe = "t1 = [1, \"s\"].last\ndbtp t1\nt2 = [1, \"s\"].last(1)\ndbtp t2\nt3 = [1, \"s\"].first\ndbtp t3\nt4 = [1, \"s\"].first(1)\ndbtp t4\nt5 = [1, \"s\"].shift\ndbtp t5\nt6 = [1, \"s\"].shift(1)\ndbtp t6\nt7 = [1, \"s\"].pop\ndbtp t7\nt8 = [1, \"s\"] * 2\ndbtp t8\nt9 = [1, \"s\"] * \",\"\ndbtp t9\nt10 = [1, \"s\"].max\ndbtp t10\nt11 = [1, \"s\"].min\ndbtp t11\nt12 = [1, \"s\"].flatten\ndbtp t12\nt13 = [1, \"s\"].dup\ndbtp t13\nt14 = [1, \"s\"].at(0)\ndbtp t14\nt15 = [1, \"s\"] - [1]\ndbtp t15\nt16 = [1, \"s\"].push(1.5)\ndbtp t16\nt17 = {k: 1}.merge({j: \"s\"})\ndbtp t17\nt18 = {k: 1, j: \"s\"}.values\ndbtp t18\nt19 = {k: 1, j: \"s\"}.delete(:k)\ndbtp t19\nt20 = {k: 1}.key(1)\ndbtp t20\nt21 = 2 * 3\ndbtp t21\nt22 = 2 * 1.5\ndbtp t22\nt23 = 2 + 3\ndbtp t23\nt24 = 2 - 1.5\ndbtp t24\nt25 = 2 <=> 3\ndbtp t25\nt26 = (1..3).first\ndbtp t26\nt27 = (1..3).first(2)\ndbtp t27\nt28 = \"a\".upcase\ndbtp t28\nt29 = \"a\".upcase!\ndbtp t29\nt30 = \"abc\".index(\"b\")\ndbtp t30\nt31 = \"a\" + \"b\"\ndbtp t31\nt32 = \"a\" * 2\ndbtp t32\nt33 = 1.to_s\ndbtp t33\nt34 = nil.to_s\ndbtp t34\nt35 = 1.nil?\ndbtp t35\nt36 = 1 == 2\ndbtp t36\nt37 = p(1)\ndbtp t37\nt38 = [1, \"s\"].reject do |e|\n  true\nend\ndbtp t38\nt39 = [1, \"s\"].collect do |e|\n  1.5\nend\ndbtp t39\nt40 = [3, 1].sort\ndbtp t40\nt41 = 1.5.to_i\ndbtp t41\nt42 = :a.to_s\ndbtp t42\nt43 = [1, \"s\"].delete_at(0)\ndbtp t43\nt44 = [1, \"s\"] & [1]\ndbtp t44\nclass Pe\nextend Enumerable\ndef self.go\ncollect do |e|\n1\nend\nend\nend\nt45 = Pe.go\ndbtp t45\nclass Pi\ninclude Enumerable\ndef go\ncollect do |e|\n1\nend\nend\nend\nt46 = Pi.new.go\ndbtp t46\n"

var verifWidePrograms = []struct{ name, text string }{
	{"last-and-last-n", "a = [Sym.a, Sym.b]\nb = a.last\nc = a.last(1)\n"},
	{"shift-and-shift-n", "a = [Sym.a, Sym.b]\nb = a.shift\nc = a.shift(1)\n"},
	{"pop-first-at", "a = [Sym.a, Sym.b]\nb = a.pop\nc = a.first\nd = a.first(1)\ne = a.at(0)\nf = a.delete_at(0)\n"},
	{"array-times", "a = [Sym.a, Sym.b]\nb = a * 2\nc = a * \",\"\n"},
	{"max-min-sort", "a = [Sym.a, Sym.b]\nb = a.max\nc = a.min\nd = a.sort\n"},
	{"flatten-dup-minus-and", "a = [Sym.a, Sym.b]\nb = a.flatten\nc = a.dup\nd = a - [1]\ne = a & [1]\n"},
	{"push-shovel-index-assign", "a = [Sym.a]\na.push(Sym.b)\na << Sym.b\na[0] = Sym.b\n"},
	{"hash-merge", "h = {k: Sym.a}\ng = h.merge({j: Sym.b})\nh.merge!({j: Sym.b})\n"},
	{"hash-values-delete-key-store", "h = {k: Sym.a, j: Sym.b}\nv = h.values\nd = h.delete(:k)\nk = h.key(1)\nh[:z] = Sym.b\n"},
	{"numeric-operators", "x = Sym.n\na = 2 * x\nb = 2 + x\nc = 2 - x\nd = x * 2\ne = 2 <=> 3\n"},
	{"range-first", "r = (1..3)\nx = Sym.a\na = r.first\nb = r.first(2)\n"},
	{"string-methods", "s = \"ab\"\nx = Sym.a\na = s.upcase\nb = s.upcase!\nc = s.index(\"b\")\nd = s + \"c\"\ne = s * 2\n"},
	{"object-methods-on-any-kind", "x = Sym.a\na = x.to_s\nb = x.nil?\nc = x == Sym.b\nd = p(x)\n"},
	{"blocks", "a = [Sym.a, Sym.b]\nb = a.reject do |e|\ntrue\nend\nc = a.collect do |e|\nSym.b\nend\na.each do |e|\ne\nend\n"},
	{"union-receiver-calls", "x = Sym.u\na = x.to_s\nb = x.nil?\nc = [x].first\nd = [x, Sym.a].last\n"},
	{"assignment-through-calls", "s = \"x\"\ns.upcase = Sym.a\nn = 5\nn.to_s ||= Sym.a\na = [1]\na.first = Sym.a\na.last = Sym.b\ns.index(\"x\") = Sym.b\n"},
	{"multiple-assignment-through-calls", "s = \"a\"\ns.upcase, c = Sym.a, 2\nn = 3\nd, n.to_s = 1, Sym.b\n"},
	{"operator-assignment-on-call-results", "a = [1, 2]\na.first += Sym.n\nh = {k: 1}\nh.values << Sym.a\nh.key(1) ||= Sym.b\n"},
	{"include-and-extend-of-a-builtin-module", "class Ia\ninclude Enumerable\ndef go\ncollect do |e|\nSym.a\nend\nend\nend\nclass Ea\nextend Enumerable\ndef self.go\ncollect do |e|\nSym.b\nend\nend\nend\nx = Ia.new.go\ny = Ea.go\n"},
	{"include-of-a-builtin-module-only", "class Ia\ninclude Enumerable\ndef go\ncollect do |e|\nSym.a\nend\nend\nend\nx = Ia.new.go\nz = Ia.new.collect do |e|\nSym.b\nend\n"},
	{"failing-calls", "x = Sym.a\na = [1].first(x)\nb = \"s\" + x\nc = 2 * x\nd = [1].at\ne = \"s\".upcase(x)\n"},
}

// VerifBuiltinStableWide: a program of builtin calls on symbolic leaves, then the wide probe;
// the probe's output must equal its output when run alone, and the builtin method table must
// be deep-equal to its snapshot.
func VerifBuiltinStableWide(n int) {
	pp := verifWidePrograms[verifapi.Concrete(verifapi.Int("program", 0, len(verifWidePrograms)-1))]
	var need []string
	for _, nm := range []string{"a", "b", "n", "u"} {
		if strings.Contains(pp.text, "Sym."+nm) {
			need = append(need, nm)
		}
	}
	s := verifInstallSym(need...)
	verifapi.WitnessList("Sym.a", verifKN(s.ka))
	verifapi.WitnessList("Sym.b", verifKN(s.kb))
	verifapi.WitnessList("Sym.n", verifKN(s.kn))
	verifapi.WitnessList("Sym.u", verifKN(s.u1), verifKN(s.u2))
	snap := base.VerifBuiltinSnapshot()
	mark := verifapi.Snapshot()
	alone := verifRun(verifWideProbe)
	verifapi.Restore(mark)
	after := verifRun(pp.text + verifWideProbe)
	verifapi.Reach("ran")
	verifExpectShift("C12-probe", "C12/probe-type-depends-on-earlier-program/"+pp.name, verifWideProbe, pp.text+verifWideProbe, alone, after, 1, verifCountLines(pp.text))
	_ = snap
}

// VerifBuiltinTable (kernel job, replayed in a natively compiled test binary): one of the
// C12 programs is evaluated through the four real rounds
// (evaluationLoop in load mode: same evaluation, no printing, no os.Exit), then every
// Builtin-frame method T of TFrame is compared field by field with a snapshot taken before;
// the class names the entry and the field that changed.
// verifFullCfgPrograms: calls of methods configured in frames other than "Builtin" (the full
// shipped configuration is needed), with arguments of solver-chosen kinds.
var verifFullCfgPrograms = []struct{ name, text string }{
	{"gpio-error-class-method-with-default-parameter", "x = GPIO::Error.peripheral_error(Sym.a, Sym.b)\ny = GPIO::Error.peripheral_error(1)\n"},
	{"activerecord-class-macros", "class Us < ApplicationRecord\nhas_one :profile, Sym.a\nbelongs_to :org, Sym.b\nend\n"},
	{"activerecord-instance-predicates", "class Us < ApplicationRecord\nend\nu = Us.new\nv = u.valid?(Sym.a)\nw = u.invalid?(Sym.b)\n"},
	{"activerecord-relation-calls", "class Us < ApplicationRecord\nend\nr = Us.all\ns = Us.sum(Sym.a)\nt = Us.lock(Sym.b)\n"},
}

func VerifBuiltinTable(n int) {
	if n == 1 {
		pp := verifFullCfgPrograms[verifapi.Concrete(verifapi.Int("program", 0, len(verifFullCfgPrograms)-1))]
		verifKindHi = 5
		verifInstallSym("a", "b")
		verifapi.Witness("src", pp.text)
		verifapi.Witness("program", pp.name)
		snap := base.VerifBuiltinSnapshot()
		verifRunRounds(pp.text, "./a.rb", cmd.NewExecuteFlags(), 0, true)
		verifapi.Reach("ran")
		diff := base.VerifBuiltinDiff(snap)
		verifapi.Witness("C12-table.changed", diff)
		verifapi.Classify("C12/builtin-method-table-altered/" + diff)
		verifapi.Assert(diff == "", "C12-table")
		return
	}
	k := verifapi.Concrete(verifapi.Int("program", 0, len(verifStablePairs)+len(verifWidePrograms)-1))
	text, name := "", ""
	if k < len(verifStablePairs) {
		text, name = verifStablePairs[k].prog, verifStablePairs[k].name
	} else {
		text, name = verifWidePrograms[k-len(verifStablePairs)].text, verifWidePrograms[k-len(verifStablePairs)].name
	}
	var need []string
	for _, nm := range []string{"a", "b", "n", "u"} {
		if strings.Contains(text, "Sym."+nm) {
			need = append(need, nm)
		}
	}
	verifInstallSym(need...)
	// the program alone: what a later probe would see is the stable-wide job's business
	src := text
	verifapi.Witness("src", src)
	verifapi.Witness("program", name)
	snap := base.VerifBuiltinSnapshot()
	verifRunRounds(src, "./a.rb", cmd.NewExecuteFlags(), 0, true)
	verifapi.Reach("ran")
	diff := base.VerifBuiltinDiff(snap)
	verifapi.Witness("C12-table.changed", diff)
	verifapi.Classify("C12/builtin-method-table-altered/" + diff)
	verifapi.Assert(diff == "", "C12-table")
}

// ---- hosts shared by C11 (interference) and C06 (layout) ----

type verifHost struct {
	name  string
	lines []string
	// inner: 1-based rows before which an independent statement may be inserted without
	// becoming the last statement of its enclosing body
	inner []int
}

var verifHosts = []verifHost{
	{"if-else", []string{"x = Sym.u", "if x.nil?", "dbtp x", "else", "dbtp x", "end", "dbtp x"}, []int{1, 2, 3, 5, 7}},
	{"builtin-calls", []string{"a = [Sym.a]", "b = a.first", "dbtp b", "c = 2 * 3", "dbtp c"}, []int{1, 2, 3, 4, 5}},
	{"def-and-call", []string{"def f(v)", "w = v", "w", "end", "r = f(Sym.a)", "dbtp r"}, []int{1, 2, 3, 5, 6}},
	{"class-method", []string{"class Foo", "def bar(v)", "v", "end", "end", "o = Foo.new", "r = o.bar(Sym.a)", "dbtp r"}, []int{1, 2, 3, 6, 7, 8}},
	{"do-block", []string{"a = [Sym.a, 1]", "a.each do |e|", "dbtp e", "end", "dbtp a"}, []int{1, 2, 3, 5}},
	{"case-in", []string{"x = Sym.a", "case x", "in Integer", "dbtp x", "in String", "dbtp x", "end", "dbtp x"}, []int{1, 2, 4, 6, 8}},
	{"brace-block-elsif", []string{"y = Sym.a", "r = [1, 2].map { |e| e }", "if y.nil?", "dbtp y", "elsif y.is_a?(Integer)", "dbtp y", "else", "dbtp y", "end", "dbtp r"}, []int{1, 2, 3, 4, 6, 8, 10}},
	{"case-in-binding", []string{"x = [Sym.a, 1]", "case x", "in [p, q]", "dbtp p", "dbtp q", "end", "dbtp x"}, []int{1, 2, 4, 5, 7}},
	{"ends-with-end", []string{"def g(v)", "v", "end", "r = g(Sym.a)", "dbtp r", "if r.nil?", "dbtp r", "end"}, []int{1, 4, 5, 6}},
	{"ends-with-call", []string{"a = [Sym.a]", "dbtp a", "b = a.first", "dbtp b", "a.push(1)"}, []int{1, 2, 3, 4}},
	{"guard-clause", []string{"def h(v)", "return 0 if v.nil?", "w = v", "dbtp w", "w", "end", "r = h(Sym.a)", "dbtp r"}, []int{1, 2, 3, 4, 7, 8}},
	{"modifier-unless-then-array", []string{"x = Sym.a", "y = 1 unless x.nil?", "[1, 2].each do |e|", "dbtp e", "end", "dbtp y"}, []int{1, 2, 3, 4, 6}},
	// hosts 12..: index expressions, splats, keyword errors, operator assignments, loops, case/when
	{"index-expressions", []string{"a = [Sym.a, 1]", "b = a[0]", "dbtp b", "h = {k: Sym.a}", "c = h[:k]", "dbtp c", "s = \"abc\"", "d = s[0]", "dbtp d", "a[1] = 2.5", "dbtp a"}, []int{1, 2, 3, 4, 5, 6, 7, 8, 9, 10, 11}},
	{"splat-method", []string{"def sp(*r, **o)", "dbtp r", "r", "end", "q = sp(Sym.a, 1)", "dbtp q"}, []int{1, 2, 5, 6}},
	{"keyword-errors", []string{"def kw(k: 1)", "k", "end", "kw(1)", "kw(k: Sym.a, j: 3)", "r = kw(k: Sym.a)", "dbtp r"}, []int{1, 4, 5, 6, 7}},
	{"operator-assignments", []string{"x = 1", "x += 2", "dbtp x", "y = nil", "y ||= Sym.a", "dbtp y", "w = x > 1 ? Sym.a : :b", "dbtp w"}, []int{1, 2, 3, 4, 5, 6, 7, 8}},
	{"while-and-case-when", []string{"i = 0", "while i < 3", "i += 1", "end", "dbtp i", "x = Sym.a", "case x", "when 1", "dbtp x", "else", "dbtp x", "end"}, []int{1, 2, 3, 5, 6, 7, 9, 11}},
	{"nested-index", []string{"m = [[Sym.a, \"s\"], [2.5]]", "n = m[0][1]", "dbtp n", "dbtp m"}, []int{1, 2, 3, 4}},
	{"valueless-guard-clause", []string{"def pick(flag)", "label = \"none\"", "return if flag", "label.length", "end", "width = pick(Sym.a)", "dbtp width", "\"abc\".tr(width, \"-\")"}, []int{1, 2, 3, 4, 6, 7, 8}},
	{"explicit-returns", []string{"def rr(v)", "w = 1.5", "return w unless v", "t = :s", "return", "end", "q = rr(Sym.a)", "dbtp q"}, []int{1, 2, 3, 4, 7, 8}},
	{"unresolved-calls-with-blocks", []string{"items = [Sym.a, 1]", "items.each_pair do |k|", "dbtp k", "end", "u = true ? 1 : Sym.a", "u.each_char { |c|", "dbtp c", "}", "dbtp items"}, []int{1, 2, 5, 6, 9}},
	{"unresolved-calls", []string{"x = Sym.a", "y = x.nope_one", "dbtp y", "z = [x].nope_two(1)", "dbtp z", "w = nope_three(x)", "dbtp w"}, []int{1, 2, 3, 4, 5, 6, 7}},
}

const verifOldHosts, verifOldFragments = 12, 8

var verifFragments = []struct{ name, text string }{
	{"conditional", "qq = nil\nif qq.nil?\nqq\nend\n"},
	{"array-literal", "pp = [1, \"s\"]\n"},
	{"builtin-call-on-union", "uu = true ? 1 : \"s\"\nvv = uu * 2\n"},
	{"block", "[1, 2].each do |ee|\nee\nend\n"},
	{"string-call", "ss = \"a\".upcase\n"},
	{"modifier-if", "fq = nil\nfr = 1 if fq.nil?\n"},
	{"while-loop", "wi = 0\nwhile wi < 3\nwi = wi + 1\nend\n"},
	{"hash-and-index", "hh = {k: 1}\nhv = hh[:k]\n"},
	// fragments 8..
	{"index-read", "ia = [1, 2]\nib = ia[0]\n"},
	{"string-index", "sa = \"abc\"[1]\n"},
	{"index-write", "wa = [1]\nwa[0] = \"s\"\n"},
	{"failing-call", "fz = [1].first(\"s\")\n"},
	{"unless-else", "uq = 1\nunless uq.nil?\nuq\nelse\nuq\nend\n"},
	{"case-when", "cw = 1\ncase cw\nwhen 1\ncw\nend\n"},
	{"ternary", "tq = true ? 1 : \"s\"\n"},
	{"or-assign", "oq = nil\noq ||= 1\n"},
	{"brace-block", "[1, 2].each { |bb| bb }\n"},
}

func verifJoinLines(lines []string) string {
	s := ""
	for _, l := range lines {
		s += l + "\n"
	}
	return s
}

// verifInsert returns the host with text inserted before 1-based row at.
func verifInsert(h verifHost, at int, text string) string {
	s := ""
	for i, l := range h.lines {
		if i+1 == at {
			s += text
		}
		s += l + "\n"
	}
	return s
}

func verifHostSyms(h verifHost) *verifSym {
	src := verifJoinLines(h.lines)
	var need []string
	for _, nm := range []string{"a", "b", "u"} {
		if strings.Contains(src, "Sym."+nm) {
			need = append(need, nm)
		}
	}
	s := verifInstallSym(need...)
	verifapi.WitnessList("Sym.a", verifKN(s.ka))
	verifapi.WitnessList("Sym.b", verifKN(s.kb))
	verifapi.WitnessList("Sym.u", verifKN(s.u1), verifKN(s.u2))
	return s
}

// VerifInterfere: C11. Host alone vs. host with an independent fragment inserted at a
// statement boundary; every output line from outside the fragment must be unchanged apart
// from the row shift. n = 0: first 3 hosts x first 3 fragments; n = 1: all.
func VerifInterfere(n int) {
	nh, nf := 3, 3
	if n >= 1 {
		nh, nf = len(verifHosts), len(verifFragments)
	}
	hi := verifapi.Concrete(verifapi.Int("host", 0, nh-1))
	fi := verifapi.Concrete(verifapi.Int("fragment", 0, nf-1))
	// quick tier (n == 1): the original 12 x 8 product in full, a quarter of the pairs that
	// involve a newer host or fragment; thorough (n == 2): every pair
	verifapi.Assume(n != 1 || (hi < verifOldHosts && fi < verifOldFragments) || (hi+fi)%4 == 0)
	h := verifHosts[hi]
	f := verifFragments[fi]
	at := h.inner[verifapi.Concrete(verifapi.Int("boundary", 0, len(h.inner)-1))]
	verifHostSyms(h)
	a := verifJoinLines(h.lines)
	b := verifInsert(h, at, f.text)
	outA, outB := verifRunTwo(a, b)
	verifapi.Reach("ran")
	verifapi.Witness("where", h.name+" row "+verifItoa(at))
	verifExpectShift("C11-shift", "C11/host-output-changed-by-independent-fragment/"+f.name+"/into-"+h.name, a, b, outA, outB, at, verifCountLines(f.text))
}

// VerifLayout: C06. Layout edits that must only shift rows: a blank line or a comment-only
// line inserted at any line boundary, a newline added inside a string literal, the trailing
// newline removed.
func VerifLayout(n int) {
	nh := 4
	if n >= 1 {
		nh = len(verifHosts)
	}
	edit := verifapi.Concrete(verifapi.Int("edit", 0, 3))
	switch edit {
	case 0, 1:
		h := verifHosts[verifapi.Concrete(verifapi.Int("host", 0, nh-1))]
		at := verifapi.Concrete(verifapi.Int("row", 1, len(h.lines)))
		verifHostSyms(h)
		text := "\n"
		kind := "blank-line"
		if edit == 1 {
			text = "# note\n"
			kind = "comment-line"
		}
		a := verifJoinLines(h.lines)
		b := verifInsert(h, at, text)
		outA, outB := verifRunTwo(a, b)
		verifapi.Reach("ran")
		ctx := "top-level-or-body"
		if at > 1 && strings.HasPrefix(h.lines[at-2], "in ") {
			ctx = "right-after-in-pattern"
		}
		verifapi.Witness("where", h.name+" row "+verifItoa(at))
		verifExpectShift("C06-shift", "C06/"+kind+"-changes-more-than-rows/"+ctx+"/"+h.name, a, b, outA, outB, at, 1)
	case 2:
		// trailing newline removed: same output expected
		h := verifHosts[verifapi.Concrete(verifapi.Int("host", 0, nh-1))]
		verifHostSyms(h)
		a := verifJoinLines(h.lines)
		b := strings.TrimSuffix(a, "\n")
		outA, outB := verifRunTwo(a, b)
		verifapi.Reach("ran")
		verifExpectShift("C06-shift", "C06/trailing-newline-removal-changes-output/"+h.name, a, b, outA, outB, 1000, 0)
	case 3:
		// a newline added inside one (or both) of two string literals, in three forms: a raw
		// newline in a double-quoted literal, a backslash-newline continuation in a
		// double-quoted literal, a raw newline in a single-quoted literal
		s := verifInstallSym("a")
		verifapi.WitnessList("Sym.a", verifKN(s.ka))
		v := verifapi.Concrete(verifapi.Int("variant", 0, 3))
		form := verifapi.Concrete(verifapi.Int("form", 0, 2))
		narrow := []string{"\"ab\"", "\"ab\"", "'ab'"}[form]
		wide := []string{"\"a\nb\"", "\"a\\\nb\"", "'a\nb'"}[form]
		lit := []string{narrow, wide}
		pairA := [][2]int{{0, 0}, {0, 0}, {0, 0}, {0, 1}}[v]
		pairB := [][2]int{{1, 0}, {0, 1}, {1, 1}, {1, 1}}[v]
		// where the first literal stands: right-hand side of an assignment, a statement of its
		// own (top level, last statement of a method body, inside a do-block), a call argument
		pos := verifapi.Concrete(verifapi.Int("position", 0, 4))
		if pos > 0 && v >= 2 {
			// the identical-content variants are a known finding of the pinned tree in every
			// position (same root); they stay with the assignment form
			return
		}
		mk := func(p [2]int) string {
			tail := "t = " + lit[p[1]] + "\nx = Sym.a\ndbtp x\ndbtp t\nundefined_fn(1)\n"
			switch pos {
			case 1:
				return "z = 1\n" + lit[p[0]] + "\n" + tail
			case 2:
				return "def g(q)\nz = 1\n" + lit[p[0]] + "\nend\n" + tail + "dbtp g(1)\n"
			case 3:
				return "p(" + lit[p[0]] + ")\n" + tail
			case 4:
				return "[1].each do |e|\nz = e\n" + lit[p[0]] + "\nend\n" + tail
			}
			return "s = " + lit[p[0]] + "\nt = " + lit[p[1]] + "\nx = Sym.a\ndbtp x\ndbtp s\nundefined_fn(1)\n"
		}
		a, b := mk(pairA), mk(pairB)
		outA, outB := verifRunTwo(a, b)
		verifapi.Reach("ran")
		// rows of B after the widened literal(s) are larger by the number of added newlines
		added := (pairB[0] - pairA[0]) + (pairB[1] - pairA[1])
		name := []string{"first-literal", "second-literal", "both-literals-identical-content", "first-literal-becomes-identical-to-second"}[v] +
			[]string{"", "/backslash-newline-continuation", "/single-quoted"}[form]
		// the inserted physical lines are the continuation lines of the literals; nothing is
		// reported on them, so "dropping" rows [at, at+delta) is harmless
		at := []int{1, 2, 3, 1, 3}[pos] + 1
		if v == 1 {
			at = []int{2, 3, 5, 2, 5}[pos] + 1
		}
		name += []string{"", "/literal-as-a-statement-of-its-own", "/literal-as-last-statement-of-a-method", "/literal-as-call-argument", "/literal-as-statement-inside-a-do-block"}[pos]
		verifExpectShift("C06-shift", "C06/newline-inside-string-literal-changes-more-than-rows/"+name, a, b, outA, outB, at, added)
	}
}

// ---- C13: consistent renaming ----

type verifRenameSkel struct {
	category string
	ref      string
	names    []string
	text     string // uses the reference name
}

var verifRenameSkels = []verifRenameSkel{
	{"local-variable", "zzq", []string{"v", "a1", "_t", "long_name_x", "q", "camelCase", "x9y", "__w", "end_x", "do_it", "if_x", "in_x", "not_x", "or_b", "and_c", "then_x", "nil_x", "self_x", "true_x", "e", "x_", "unless1", "while_w", "defx", "classy"},
		"zzq = Sym.a\ndbtp zzq\ny = zzq\ndbtp y\nzzq = [zzq, 1]\ndbtp zzq\nundefined_fn(zzq)\n"},
	{"method", "zzq", []string{"foo", "f", "bar_baz", "q1", "go", "fooBar", "_priv", "do_it2", "end_x", "if_x", "in_x", "def_x", "class_x", "puts_x", "p1", "return_v", "yield_it", "new_one", "is_a", "nil_p"},
		"def zzq(v)\nv\nend\nr = zzq(Sym.a)\ndbtp r\nzzq(1, 2)\nzzq\n"},
	{"class", "Zzq", []string{"Hx", "H", "Zed", "Ab1", "Qq", "HTTPClient", "I2CBus", "FooBar", "Xy_z", "Endx", "Ifx", "Selfish", "Nilx", "Do1", "A1", "Classy", "Modulex", "Stringy", "Arrayx"},
		"class Zzq\ndef foo\n1\nend\ndef self.make\nZzq.new\nend\nend\no = Zzq.new\ndbtp o.foo\ndbtp Zzq.make\ndbtp Zzq.new.foo\nZzq.bar\no.baz\n"},
	{"instance-variable", "zzq", []string{"v", "a1", "_t", "count", "q"},
		"class Kxy\ndef initialize\n@zzq = Sym.a\nend\ndef get\n@zzq\nend\nend\ndbtp Kxy.new.get\n"},
	{"setter-method", "zzq", []string{"val", "v", "a_b", "x1", "go"},
		"class Kxy\ndef zzq=(w)\n@s = w\nend\ndef zzq\n@s\nend\nend\no = Kxy.new\no.zzq = Sym.a\ndbtp o.zzq\n"},
	{"heredoc-terminator", "ZZQ", []string{"EOS", "EOT", "TXT", "E", "HEREDOC"},
		"x = <<ZZQ\nE dbtp 1\nZZQ\ndbtp x\ny = 1\ndbtp y\n"},
	{"keyword-parameter", "zzq", []string{"k", "ab", "key_1", "if_x", "end_y", "do_it", "in_z", "v"},
		"def f(zzq:)\ndbtp zzq\nzzq\nend\nr = f(zzq: Sym.a)\ndbtp r\nf(zzq: 1)\nf()\n"},
	{"keyword-parameter-next-to-another", "zzq", []string{"w", "depth", "x1", "x9z", "x_1", "xa", "a", "xx", "x0"},
		"def f(zzq:, x:)\ndbtp zzq\ndbtp x\nzzq\nend\nr = f(zzq: Sym.a, x: 1.5)\ndbtp r\nq = f(x: 1, zzq: \"s\")\ndbtp q\n"},
	{"local-variable-next-to-similar-names", "zzq", []string{"x1", "x_", "xx", "x0", "ax", "x"},
		"x2 = 1.5\nzzq = Sym.a\nxa = :s\ndbtp zzq\ndbtp x2\ndbtp xa\ny = [zzq, x2, xa]\ndbtp y\n"},
	{"method-next-to-similar-names", "zzq", []string{"go1", "go_", "gox", "g"},
		"def go(v)\n1.5\nend\ndef zzq(v)\nv\nend\ndef go2(v)\n:s\nend\nr = zzq(Sym.a)\ndbtp r\ndbtp go(1)\ndbtp go2(1)\n"},
	{"block-parameter", "zzq", []string{"e", "i", "el_1", "if_x", "in_x", "do_z", "end_q", "v"},
		"a = [Sym.a]\na.each do |zzq|\ndbtp zzq\nend\nb = a.collect { |zzq| zzq }\ndbtp b\n"},
	{"hash-key", "zzq", []string{"k", "ab", "key_1", "if_x", "end_y", "do_it", "v"},
		"h = {zzq: Sym.a}\nv = h[:zzq]\ndbtp v\ndbtp h\n"},
	{"constant", "ZZQ", []string{"MAX", "A", "A1", "MAX_VALUE", "PI2", "END_X", "IF"},
		"ZZQ = Sym.a\ndbtp ZZQ\nx = ZZQ\ndbtp x\n"},
	{"module", "Zzq", []string{"Mx", "M", "Util", "Ab1", "HTTPUtil", "Do1", "Endx"},
		"module Zzq\ndef self.mk\n1\nend\ndef inst\n2\nend\nend\nclass Kxy\ninclude Zzq\nend\ndbtp Zzq.mk\ndbtp Kxy.new.inst\n"},
	{"attr-accessor", "zzq", []string{"val", "v", "a_b", "x1", "if_x", "end_y", "do_it"},
		"class Kxy\nattr_accessor :zzq\ndef initialize\n@zzq = Sym.a\nend\nend\no = Kxy.new\ndbtp o.zzq\no.zzq = 1\n"},
	{"global-variable", "$zzq", []string{"$g", "$gl_1", "$if_x", "$G", "$end_x"},
		"$zzq = Sym.a\ndbtp $zzq\n"},
	{"method-with-bang-suffix", "zzq!", []string{"ok!", "f!", "do_it!", "end_x!"},
		"def zzq!(v)\nv\nend\nr = zzq!(Sym.a)\ndbtp r\n"},
	{"block-argument-parameter", "zzq", []string{"blk", "b", "c", "handler", "bk", "if_x", "e"},
		"def f(x, **opts, &zzq)\nx\nend\nr = f(Sym.a)\ndbtp r\nclass Kxy\ndef m(**o, &zzq)\n1\nend\ndef self.cm(*rest, &zzq)\n2\nend\nend\ndbtp Kxy.new.m\ndbtp Kxy.cm\n"},
	{"splat-parameter", "zzq", []string{"a", "args", "rest_1", "r", "end_x"},
		"def f(*zzq)\ndbtp zzq\nzzq\nend\nr = f(Sym.a, 1)\ndbtp r\n"},
	{"double-splat-parameter", "zzq", []string{"o", "opts", "kw_1", "in_x"},
		"def f(v, **zzq)\ndbtp zzq\nv\nend\nr = f(Sym.a, k: 1)\ndbtp r\n"},
	{"default-parameter", "zzq", []string{"d", "dflt", "v_1", "do_x", "n"},
		"def f(v, zzq = 2)\ndbtp zzq\nv\nend\nr = f(Sym.a)\ndbtp r\nf(1, \"s\")\n"},
	{"method-with-predicate-suffix", "zzq?", []string{"ok?", "f?", "is_it?", "q1?", "go?"},
		"def zzq?(v)\ntrue\nend\nr = zzq?(Sym.a)\ndbtp r\n"},
}

// VerifRename: the program with the reference name vs. the same program with a fresh name of
// the same lexical category; outputs must be equal after the same substitution.
func VerifRename(n int) {
	sk := verifRenameSkels[verifapi.Concrete(verifapi.Int("skeleton", 0, len(verifRenameSkels)-1))]
	name := sk.names[verifapi.Concrete(verifapi.Int("name", 0, len(sk.names)-1))]
	var need []string
	if strings.Contains(sk.text, "Sym.a") {
		need = append(need, "a")
	}
	s := verifInstallSym(need...)
	verifapi.WitnessList("Sym.a", verifKN(s.ka))
	a := sk.text
	b := strings.ReplaceAll(sk.text, sk.ref, name)
	verifapi.Witness("srcA", a)
	verifapi.Witness("srcB", b)
	verifapi.Witness("rename-from", sk.ref)
	verifapi.Witness("rename-to", name)
	outA, outB := verifRunTwo(a, b)
	verifapi.Reach("ran")
	shape := "ordinary-name"
	if len(name) == 1 || (len(name) == 2 && strings.HasSuffix(name, "?")) {
		shape = "one-character-name"
	} else if len(name) > 2 && name[0] >= 'A' && name[0] <= 'Z' && ((name[1] >= 'A' && name[1] <= 'Z') || (name[1] >= '0' && name[1] <= '9')) {
		shape = "acronym-style-name"
	}
	if len(name) >= 2 && name == strings.ToUpper(name) && sk.category != "constant" && sk.category != "heredoc-terminator" && name[0] >= 'A' && name[0] <= 'Z' {
		shape = "name-without-lower-case-letters"
	}
	for _, kw := range []string{"end", "do", "if", "in", "not", "or", "and", "then", "nil", "self", "true", "unless", "while", "def", "class", "return", "yield", "module"} {
		bare := strings.ToLower(strings.TrimLeft(name, "$@"))
		if shape == "ordinary-name" && strings.HasPrefix(bare, kw) && len(bare) > len(kw) {
			shape = "name-starting-with-a-keyword"
		}
	}
	if sk.category == "heredoc-terminator" {
		shape = "body-token-is-substring-of-terminator"
	}
	verifapi.Classify("C13/output-differs-beyond-renaming/" + sk.category + "/" + shape)
	verifapi.Assert(outB == strings.ReplaceAll(outA, sk.ref, name), "C13-rename")
}

// ---- C14: keyword argument order ----

var verifPerm3 = [][]int{{0, 1, 2}, {0, 2, 1}, {1, 0, 2}, {1, 2, 0}, {2, 0, 1}, {2, 1, 0}}

// VerifKwOrder: a call with up to 3 keyword arguments (values of solver-chosen kinds) against
// a user-defined or a configured method, written once in declaration order and once in a
// solver-chosen permutation; the outputs must be identical. Shapes: required and defaulted
// keywords, one keyword missing, an undeclared keyword, a leading positional.
func VerifKwOrder(n int) {
	// 0 user-defined (leading positional), 1 configured (Sym.kw), 2 user-defined keyword-only, 3 keyword-only on a union of
	// two configured classes (La|Mo), 4 keyword-only on a union of instances of two user classes
	target := verifapi.Concrete(verifapi.Int("target", 0, 5))
	shape := verifapi.Concrete(verifapi.Int("shape", 0, 3))   // 0 all given, 1 one missing, 2 undeclared extra, 3 defaulted one omitted
	perm := verifPerm3[verifapi.Concrete(verifapi.Int("perm", 1, 5))]
	s := verifInstallSym("a", "b")
	verifapi.WitnessList("Sym.a", verifKN(s.ka))
	verifapi.WitnessList("Sym.b", verifKN(s.kb))
	if target == 1 {
		builtin.VerifInstallSymKw()
	}
	// the three keyword arguments of the call, in declaration order
	kws := []string{"ka: Sym.a", "kb: Sym.b", "kc: 1"}
	switch shape {
	case 1:
		kws = []string{"ka: Sym.a", "kc: 1", ""} // kb (required) missing
	case 2:
		kws = []string{"ka: Sym.a", "kb: Sym.b", "zz: 1"} // undeclared keyword
	case 3:
		kws = []string{"ka: Sym.a", "kb: Sym.b", ""} // defaulted kc omitted
	}
	call := func(order []int) string {
		args := ""
		if target <= 1 {
			args = "1"
		}
		_ = 0
		for _, i := range order {
			if kws[i] != "" {
				if args != "" {
					args += ", "
				}
				args += kws[i]
			}
		}
		switch target {
		case 1:
			return "r = Sym.kw(" + args + ")\ndbtp r\n"
		case 2:
			return "r = mq(" + args + ")\ndbtp r\n"
		case 3:
			return "d = Rig.device\nr = d.tri(" + args + ")\ndbtp r\n"
		case 4:
			return "x = true ? Ua.new : Ub.new\nr = x.f(" + args + ")\ndbtp r\n"
		case 5:
			return "r = cq(1, " + args + ")\ndbtp r\n"
		}
		return "r = mm(" + args + ")\ndbtp r\n"
	}
	pre := ""
	switch target {
	case 0:
		pre = "def mm(p, ka:, kb:, kc: 2)\ndbtp ka\ndbtp kb\ndbtp kc\np\nend\n"
	case 2:
		pre = "def mq(ka:, kb:, kc: 2)\ndbtp ka\ndbtp kb\ndbtp kc\nka\nend\n"
	case 3:
		filesW := ""
		for _, f := range [][2]string{{"la", verifCfgLa}, {"mo", verifCfgMo}, {"rig", verifCfgRig}} {
			verifapi.SetFile(".ti-config/"+f[0]+".json", f[1])
			filesW += f[0] + ".json\x1e" + f[1] + "\x1d"
		}
		verifapi.Witness("extra-config-files", filesW)
		verifapi.VfsOnly(".ti-config")
		builtin.VerifLoadConfigAgain()
	case 4:
		pre = "class Ua\ndef f(ka:, kb:, kc: 2)\nka\nend\nend\nclass Ub\ndef f(ka:, kb:, kc: 2)\nkb\nend\nend\n"
	case 5:
		// the keywords are collected by a double-splat parameter and observed through the hash
		pre = "def cq(p, **o)\ndbtp o[:ka]\nv = o.values\ndbtp v\nf = v.first\ndbtp f\no.each do |k, w|\ndbtp w\nend\no[:kb]\nend\n"
	}
	a := pre + call([]int{0, 1, 2})
	b := pre + call(perm)
	outA, outB := verifRunTwo(a, b)
	verifapi.Reach("ran")
	name := []string{"user-defined-method", "configured-method", "user-defined-method-keyword-only-call", "union-of-configured-classes-keyword-only-call", "union-of-user-classes-keyword-only-call", "keywords-collected-by-a-double-splat-parameter"}[target] + "/" + []string{"all-keywords-given", "required-keyword-missing", "undeclared-keyword", "defaulted-keyword-omitted"}[shape]
	verifExpectShift("C14-order", "C14/output-depends-on-keyword-order/"+name, a, b, outA, outB, 1000, 0)
}

// ---- C15: user method parameter / return inference ----

func verifLineCovers(line string, ks []int) bool {
	if line == "untyped" {
		return true
	}
	for _, k := range ks {
		if !strings.Contains(line, verifKN(k)) {
			return false
		}
	}
	return true
}

// verifExpectCovers: the type reported on row names every kind in ks (or is untyped).
func verifExpectCovers(out, id, class string, row int, ks []int) {
	verifapi.Witness(id+".row", verifItoa(row))
	verifapi.WitnessList(id+".covers", base.VerifKindNames(ks)...)
	verifapi.Classify(class)
	verifapi.Assert(verifLineCovers(verifLine(out, row), ks), id)
}

var verifUserNames = []string{"def-before-calls", "calls-before-def", "default-parameter", "keyword-parameter", "explicit-return", "call-inside-another-method", "body-operation", "three-call-sites", "calls-before-and-after-def", "caller-method-defined-before-callee", "keyword-calls-before-and-after-def",
	"two-single-letter-keywords-declared-out-of-order", "single-letter-and-longer-keyword", "positional-default-and-keyword-mix", "call-inside-block-and-inside-method",
	"two-methods-with-the-same-parameter-name", "instance-method-of-a-class", "class-method-of-a-class", "three-keywords-given-in-another-order", "explicit-return-of-two-kinds",
	"return-points-of-two-user-classes", "return-points-of-two-user-classes-and-a-float", "return-point-of-a-user-class-and-a-leaf"}

func VerifUserMethod(n int) {
	sk := verifapi.Concrete(verifapi.Int("skeleton", 0, len(verifUserNames)-1))
	name := verifUserNames[sk]
	s := verifInstallSym("a", "b")
	verifapi.WitnessList("Sym.a", verifKN(s.ka))
	verifapi.WitnessList("Sym.b", verifKN(s.kb))
	ab := []int{s.ka, s.kb}
	cls := func(what string) string { return "C15/" + what + "/" + name }
	src := ""
	switch sk {
	case 0:
		src = "def f(v)\ndbtp v\nv\nend\nr1 = f(Sym.a)\nr2 = f(Sym.b)\ndbtp r1\ndbtp r2\n"
	case 1:
		src = "r1 = f(Sym.a)\nr2 = f(Sym.b)\ndbtp r1\ndbtp r2\ndef f(v)\ndbtp v\nv\nend\n"
	case 2:
		src = "def f(v = 1)\ndbtp v\nv\nend\nr1 = f()\nr2 = f(Sym.a)\ndbtp r2\n"
	case 3:
		src = "def f(k:)\ndbtp k\nk\nend\nr1 = f(k: Sym.a)\nr2 = f(k: Sym.b)\ndbtp r1\n"
	case 4:
		src = "def f(v)\nreturn 1 if v.nil?\n\"s\"\nend\nr = f(Sym.a)\ndbtp r\n"
	case 5:
		src = "def f(v)\ndbtp v\nv\nend\ndef g(w)\nf(w)\nend\nr1 = g(Sym.a)\nr2 = f(Sym.b)\ndbtp r1\n"
	case 6:
		src = "def f(v)\nv + 1\nend\nf(Sym.a)\nf(Sym.b)\n"
	case 7:
		src = "def f(v)\ndbtp v\nv\nend\nf(Sym.a)\nf(Sym.b)\nf(1.5)\n"
	case 8:
		src = "r1 = f(Sym.a)\ndef f(v)\ndbtp v\nv\nend\nr2 = f(Sym.b)\ndbtp r2\n"
	case 9:
		src = "def g(w)\nf(w)\nend\ndef f(v)\ndbtp v\nv\nend\nr1 = g(Sym.a)\nr2 = f(Sym.b)\ndbtp r2\n"
	case 10:
		src = "r1 = f(k: Sym.a)\ndef f(k:)\ndbtp k\nk\nend\nr2 = f(k: Sym.b)\ndbtp r2\n"
	case 11:
		src = "def f(k:, b:)\ndbtp k\ndbtp b\nk\nend\nr1 = f(k: Sym.a, b: Sym.b)\ndbtp r1\n"
	case 12:
		src = "def f(k:, ab:)\ndbtp k\ndbtp ab\nk\nend\nr1 = f(ab: Sym.b, k: Sym.a)\ndbtp r1\n"
	case 13:
		src = "def f(v, w = 2, k: 3)\ndbtp v\ndbtp w\ndbtp k\nv\nend\nf(Sym.a)\nf(Sym.b, 1.5, k: \"s\")\n"
	case 14:
		src = "def f(v)\ndbtp v\nv\nend\n[1].each do |e|\nf(Sym.a)\nend\ndef g\nf(Sym.b)\nend\ng\n"
	case 15:
		src = "def f(v)\ndbtp v\nv\nend\ndef g(v)\ndbtp v\nv\nend\nf(Sym.a)\ng(Sym.b)\n"
	case 16:
		src = "class Kk\ndef m(v)\ndbtp v\nv\nend\nend\nk = Kk.new\nr1 = k.m(Sym.a)\nr2 = k.m(Sym.b)\ndbtp r1\ndbtp r2\n"
	case 17:
		src = "class Kk\ndef self.m(v)\ndbtp v\nv\nend\nend\nr1 = Kk.m(Sym.a)\nr2 = Kk.m(Sym.b)\ndbtp r1\ndbtp r2\n"
	case 18:
		src = "def f(ka:, kb:, kc:)\ndbtp ka\ndbtp kb\ndbtp kc\nkc\nend\nr1 = f(kc: 1.5, ka: Sym.a, kb: Sym.b)\ndbtp r1\n"
	case 19:
		src = "def f(v)\nif v.nil?\nreturn 1.5\nend\nv\nend\nr = f(Sym.a)\ndbtp r\n"
	case 20:
		src = "class Ca\ndef ma\n1\nend\nend\nclass Db\ndef mb\n2\nend\nend\ndef pick(flag)\nreturn Ca.new if flag\nDb.new\nend\nr = pick(Sym.a)\ndbtp r\n"
	case 21:
		src = "class Ca\ndef ma\n1\nend\nend\nclass Db\ndef mb\n2\nend\nend\ndef pick(flag)\nif flag\nreturn Ca.new\nend\nreturn 1.5 if flag.nil?\nDb.new\nend\nr = pick(Sym.a)\ndbtp r\n"
	case 22:
		src = "class Ca\ndef ma\n1\nend\nend\ndef pick(flag)\nreturn Ca.new if flag.nil?\nflag\nend\nr = pick(Sym.a)\ndbtp r\n"
	}
	verifapi.Witness("src", src)
	out := verifRun(src)
	verifapi.Reach("ran")
	switch sk {
	case 11, 12:
		verifExpectCovers(out, "C15-param", cls("parameter-type-misses-a-call-site"), 2, []int{s.ka})
		verifExpectCovers(out, "C15-param2", cls("parameter-type-misses-a-call-site"), 3, []int{s.kb})
		verifExpectCovers(out, "C15-ret1", cls("call-result-misses-argument-type"), 7, []int{s.ka})
	case 13:
		verifExpectCovers(out, "C15-param", cls("parameter-type-misses-a-call-site"), 2, ab)
		verifExpectCovers(out, "C15-param2", cls("parameter-type-misses-a-call-site"), 3, []int{base.VkInt, base.VkFloat})
		verifExpectCovers(out, "C15-param3", cls("parameter-type-misses-a-call-site"), 4, []int{base.VkInt, base.VkString})
	case 14:
		verifExpectCovers(out, "C15-param", cls("parameter-type-misses-a-call-site"), 2, ab)
	case 15:
		verifExpectOneOf(out, "C15-param", cls("parameter-type-of-another-method-leaks-in"), 2, []string{verifKN(s.ka)})
		verifExpectOneOf(out, "C15-param2", cls("parameter-type-of-another-method-leaks-in"), 6, []string{verifKN(s.kb)})
	case 16:
		verifExpectCovers(out, "C15-param", cls("parameter-type-misses-a-call-site"), 3, ab)
		verifExpectCovers(out, "C15-ret1", cls("call-result-misses-argument-type"), 10, []int{s.ka})
		verifExpectCovers(out, "C15-ret2", cls("call-result-misses-argument-type"), 11, []int{s.kb})
	case 17:
		verifExpectCovers(out, "C15-param", cls("parameter-type-misses-a-call-site"), 3, ab)
		verifExpectCovers(out, "C15-ret1", cls("call-result-misses-argument-type"), 9, []int{s.ka})
		verifExpectCovers(out, "C15-ret2", cls("call-result-misses-argument-type"), 10, []int{s.kb})
	case 18:
		verifExpectCovers(out, "C15-param", cls("parameter-type-misses-a-call-site"), 2, []int{s.ka})
		verifExpectCovers(out, "C15-param2", cls("parameter-type-misses-a-call-site"), 3, []int{s.kb})
		verifExpectCovers(out, "C15-param3", cls("parameter-type-misses-a-call-site"), 4, []int{base.VkFloat})
		verifExpectCovers(out, "C15-ret1", cls("call-result-misses-argument-type"), 8, []int{base.VkFloat})
	case 19:
		verifExpectCovers(out, "C15-ret1", cls("call-result-misses-a-return-value"), 8, []int{base.VkFloat})
	case 20:
		verifExpectOneOf(out, "C15-ret1", cls("call-result-misses-a-return-value"), 16, []string{"Union<Ca Db>", "Union<Db Ca>"})
	case 21:
		verifapi.Witness("C15-ret1.row", "19")
		verifapi.Witness("C15-ret1.musthave", "Ca,Db,Float")
		verifapi.Classify(cls("call-result-misses-a-return-value"))
		l := verifLine(out, 19)
		verifapi.Assert(strings.Contains(l, "Ca") && strings.Contains(l, "Db") && strings.Contains(l, "Float"), "C15-ret1")
	case 22:
		verifapi.Witness("C15-ret1.row", "11")
		verifapi.Witness("C15-ret1.musthave", "Ca,"+verifKN(s.ka))
		verifapi.Classify(cls("call-result-misses-a-return-value"))
		l := verifLine(out, 11)
		verifapi.Assert(strings.Contains(l, "Ca") && strings.Contains(l, verifKN(s.ka)), "C15-ret1")
	}
	switch sk {
	case 0:
		verifExpectCovers(out, "C15-param", cls("parameter-type-misses-a-call-site"), 2, ab)
		verifExpectCovers(out, "C15-ret1", cls("call-result-misses-argument-type"), 7, []int{s.ka})
		verifExpectCovers(out, "C15-ret2", cls("call-result-misses-argument-type"), 8, []int{s.kb})
	case 1:
		verifExpectCovers(out, "C15-param", cls("parameter-type-misses-a-call-site"), 6, ab)
		verifExpectCovers(out, "C15-ret1", cls("call-result-misses-argument-type"), 3, []int{s.ka})
		verifExpectCovers(out, "C15-ret2", cls("call-result-misses-argument-type"), 4, []int{s.kb})
	case 2:
		verifExpectCovers(out, "C15-param", cls("parameter-type-misses-a-call-site"), 2, []int{base.VkInt, s.ka})
		verifExpectCovers(out, "C15-ret1", cls("call-result-misses-argument-type"), 7, []int{s.ka})
	case 3:
		verifExpectCovers(out, "C15-param", cls("parameter-type-misses-a-call-site"), 2, ab)
		verifExpectCovers(out, "C15-ret1", cls("call-result-misses-argument-type"), 7, []int{s.ka})
	case 4:
		verifExpectCovers(out, "C15-ret1", cls("call-result-misses-a-return-value"), 6, []int{base.VkInt, base.VkString})
	case 5:
		verifExpectCovers(out, "C15-param", cls("parameter-type-misses-a-call-site"), 2, ab)
		verifExpectCovers(out, "C15-ret1", cls("call-result-misses-argument-type"), 10, []int{s.ka})
	case 6:
		fails := func(k int) bool { return k != base.VkInt && k != base.VkFloat }
		verifapi.Witness("C15-body.row", "2")
		if fails(s.ka) && fails(s.kb) {
			verifapi.Witness("C15-body.demand", "diagnostic")
			verifapi.Classify(cls("body-operation-failing-for-every-argument-type-not-reported"))
			verifapi.Assert(verifLine(out, 2) != "", "C15-body")
		}
		if !fails(s.ka) && !fails(s.kb) {
			verifapi.Witness("C15-body.demand", "none")
			verifapi.Classify(cls("body-operation-succeeding-for-every-argument-type-reported"))
			verifapi.Assert(verifLine(out, 2) == "", "C15-body")
		}
	case 7:
		verifExpectCovers(out, "C15-param", cls("parameter-type-misses-a-call-site"), 2, []int{s.ka, s.kb, base.VkFloat})
	case 8, 10:
		verifExpectCovers(out, "C15-param", cls("parameter-type-misses-a-call-site"), 3, ab)
		verifExpectCovers(out, "C15-ret1", cls("call-result-misses-argument-type"), 7, []int{s.kb})
		verifapi.Witness("C15-noerr.row", "6")
		verifapi.Witness("C15-noerr.demand", "none")
		verifapi.Classify(cls("call-site-rejected-against-another-call-sites-type"))
		verifapi.Assert(verifLine(out, 6) == "", "C15-noerr")
	case 9:
		verifExpectCovers(out, "C15-param", cls("parameter-type-misses-a-call-site"), 5, ab)
		verifExpectCovers(out, "C15-ret1", cls("call-result-misses-argument-type"), 10, []int{s.kb})
	}
}

// ---- C16: user classes: resolution, inheritance, visibility ----

var verifClassNames = [][]string{{"Aa", "Bb", "Cc"}, {"Base", "Bb", "Cc"}, {"Aa", "Relation", "Cc"}, {"Aa", "Bb", "Table"}}

func verifIsTypeName(s string) bool {
	switch s {
	case "NilClass", "Integer", "String", "Bool", "Float", "Symbol":
		return true
	}
	return false
}

// VerifClasses: a three-class chain C2 < C1 < C0 with a module (included, extended or unused),
// a `class << self` method on C0, a method foo defined at a solver... (concretised) level with
// a visibility keyword, a public method bar in C1 after C0's visibility section, an
// initialize with one parameter on C0. Probes: RECV.new(1).foo, RECV.cm, the module method,
// an undefined method, RECV.new (no argument), C1.new(1).bar. Reference: Ruby's ancestor walk
// and visibility rules. names selects the class-name triple (collisions with configured
// short names).
func VerifClasses(n int) {
	names := verifClassNames[n]
	level := verifapi.Concrete(verifapi.Int("level", 0, 2))
	visHi, modHi := 2, 4
	if n > 0 { // collision jobs: visibility and module variants are covered by job 0
		visHi, modHi = 0, 1
	}
	vis := verifapi.Concrete(verifapi.Int("vis", 0, visHi)) // 0 public (no keyword), 1 private, 2 protected
	recv := verifapi.Concrete(verifapi.Int("recv", 0, 2))
	mod := verifapi.Concrete(verifapi.Int("module", 0, modHi)) // 0 none, 1 include, 2 extend, 3 include+extend, 4 extend+include
	s := verifInstallSym("a")
	verifapi.WitnessList("Sym.a", verifKN(s.ka))
	visKw := []string{"", "private\n", "protected\n"}[vis]
	fooDef := visKw + "def foo\nSym.a\nend\n"
	src := "module Mm\ndef mod_m\n1\nend\nend\n"
	src += "class " + names[0] + "\n"
	switch mod {
	case 1:
		src += "include Mm\n"
	case 2:
		src += "extend Mm\n"
	case 3:
		src += "include Mm\nextend Mm\n"
	case 4:
		src += "extend Mm\ninclude Mm\n"
	}
	src += "def initialize(x)\n@x = x\nend\nclass << self\ndef cm\n\"s\"\nend\nend\n"
	if level == 0 {
		src += fooDef
	}
	src += "end\n"
	src += "class " + names[1] + " < " + names[0] + "\ndef bar\n2\nend\n"
	if level == 1 {
		src += fooDef
	}
	src += "end\n"
	src += "class " + names[2] + " < " + names[1] + "\n"
	if level == 2 {
		src += fooDef
	}
	src += "end\n"
	base0 := verifCountLines(src)
	r := names[recv]
	src += "dbtp " + r + ".new(1).foo\n"      // base0+1
	src += "dbtp " + r + ".cm\n"              // +2
	if mod == 2 {
		src += "dbtp " + r + ".mod_m\n" // +3
	} else {
		src += "dbtp " + r + ".new(1).mod_m\n"
	}
	src += "dbtp " + r + ".new(1).nope\n" // +4
	src += "dbtp " + r + ".new\n"         // +5
	src += "dbtp " + names[1] + ".new(1).bar\n" // +6
	src += "dbtp " + r + ".mod_m\n"            // +7 (class-level module method, when extended)
	verifapi.Witness("src", src)
	out := verifRun(src)
	verifapi.Reach("ran")
	modName := []string{"none", "included", "extended", "included-then-extended", "extended-then-included"}[mod]
	shape := "names-" + names[0] + "-" + names[1] + "-" + names[2] + "/foo-in-level" + verifItoa(level) + "-" + []string{"public", "private", "protected"}[vis] + "/receiver-level" + verifItoa(recv) + "/module-" + modName
	collide := "fresh-names"
	if n > 0 {
		collide = "name-collides-with-configured-class"
	}
	// foo: callable iff the receiver's class is at or below the defining level and foo is public
	callable := recv >= level && vis == 0
	if callable {
		verifExpect(out, "C16-foo", "C16/inherited-or-own-public-method-not-resolved/"+collide, base0+1, verifKN(s.ka))
	} else {
		verifapi.Witness("C16-foo-err.row", verifItoa(base0+1))
		verifapi.Witness("C16-foo-err.demand", "diagnostic-not-a-type")
		what := "undefined-method-not-reported"
		if recv >= level {
			what = []string{"", "private-method-call-with-receiver-not-reported", "protected-method-call-from-outside-not-reported"}[vis]
		}
		verifapi.Classify("C16/" + what + "/" + collide)
		l := verifLine(out, base0+1)
		verifapi.Assert(l != "" && !verifIsTypeName(l), "C16-foo-err")
	}
	verifExpect(out, "C16-cm", "C16/class-method-from-class-self-not-inherited/"+collide, base0+2, "String")
	if mod != 0 {
		verifExpect(out, "C16-mod", "C16/module-method-not-resolved/"+modName+"/"+collide, base0+3, "Integer")
	}
	if mod >= 3 {
		verifExpect(out, "C16-mod-class", "C16/extended-module-method-not-resolved-on-the-class/"+modName+"/"+collide, base0+7, "Integer")
	}
	verifapi.Witness("C16-nope.row", verifItoa(base0+4))
	verifapi.Witness("C16-nope.demand", "diagnostic-not-a-type")
	verifapi.Classify("C16/undefined-method-not-reported/" + collide)
	ln := verifLine(out, base0+4)
	verifapi.Assert(ln != "" && !verifIsTypeName(ln), "C16-nope")
	verifapi.Witness("C16-new.row", verifItoa(base0+5))
	verifapi.Witness("C16-new.demand", "diagnostic-not-a-type")
	verifapi.Classify("C16/new-not-checked-against-initialize/" + collide)
	lnew := verifLine(out, base0+5)
	verifapi.Assert(lnew != "" && lnew != r && !verifIsTypeName(lnew), "C16-new")
	verifExpect(out, "C16-bar", "C16/visibility-section-leaks-into-another-class/"+collide, base0+6, "Integer")
	verifapi.Witness("shape", shape)
}

// VerifVisibility: a target method defined in the class itself, its superclass, a module the
// class includes, or a module the superclass includes, under public / private / protected, is
// called (1) with an implicit receiver from an instance method of the class, (2) with an
// explicit receiver (`other.tgt`, other an instance of the same class) from that method, and
// (3) from top level. Ruby's rule: public - all three resolve; private - only (1);
// protected - (1) and (2), (3) is reported.
func VerifVisibility(n int) {
	def := verifapi.Concrete(verifapi.Int("definer", 0, 3))
	vis := verifapi.Concrete(verifapi.Int("vis", 0, 2))
	// an earlier visibility section (with its own method) before the target's keyword
	before := verifapi.Concrete(verifapi.Int("before", 0, 2))
	s := verifInstallSym("a")
	verifapi.WitnessList("Sym.a", verifKN(s.ka))
	visKw := []string{"", "private\n", "protected\n"}[vis]
	if before > 0 {
		visKw = []string{"", "private\n", "protected\n"}[before] + "def zfill\n0\nend\n" + []string{"public\n", "private\n", "protected\n"}[vis]
	}
	tgt := visKw + "def tgt\nSym.a\nend\n"
	at := func(d int) string {
		if d == def {
			return tgt
		}
		return ""
	}
	src := "module Mm\ndef mfill\n1\nend\n" + at(2) + "end\n"
	src += "module Nn\ndef nfill\n1\nend\n" + at(3) + "end\n"
	src += "class Pa\ninclude Nn\ndef pfill\n1\nend\n" + at(1) + "end\n"
	src += "class Kk < Pa\ninclude Mm\ndef go(other)\n"
	base0 := verifCountLines(src)
	src += "dbtp tgt\ndbtp other.tgt\ndbtp other.kfill\nend\ndef kfill\n2.5\nend\n" + at(0) + "end\n"
	src += "k = Kk.new\nk.go(Kk.new)\n"
	outRow := verifCountLines(src) + 1
	src += "dbtp k.tgt\ndbtp k.kfill\ndbtp k.pfill\n"
	verifapi.Witness("src", src)
	out := verifRun(src)
	verifapi.Reach("ran")
	verifapi.Witness("engine-output", out)
	where := []string{"own-class", "superclass", "included-module", "module-included-by-superclass"}[def]
	visName := visName3[vis]
	shape := visName + "-method-of-" + where
	// (the class does not name the preceding section: the known findings of the pinned tree
	// are the same with and without one)
	verifapi.Witness("preceding-section", visName3[before])
	resolves := func(id string, row int, what string) {
		verifExpect(out, id, "C16/"+what+"/"+shape, row, verifKN(s.ka))
	}
	reported := func(id string, row int, what string) {
		verifapi.Witness(id+".row", verifItoa(row))
		verifapi.Witness(id+".demand", "diagnostic-not-a-type")
		verifapi.Classify("C16/" + what + "/" + shape)
		l := verifLine(out, row)
		verifapi.Assert(l != "" && !verifIsTypeName(l), id)
	}
	resolves("C16-v-implicit", base0+1, "call-with-implicit-receiver-inside-the-class-not-resolved")
	switch vis {
	case 0:
		resolves("C16-v-explicit", base0+2, "call-on-another-instance-inside-the-class-not-resolved")
		resolves("C16-v-outside", outRow, "public-call-from-outside-not-resolved")
	case 1:
		reported("C16-v-explicit", base0+2, "private-method-call-with-receiver-not-reported")
		reported("C16-v-outside", outRow, "private-method-call-with-receiver-not-reported")
	case 2:
		resolves("C16-v-explicit", base0+2, "protected-call-inside-the-hierarchy-reported-or-unresolved")
		reported("C16-v-outside", outRow, "protected-method-call-from-outside-not-reported")
	}
	// the visibility keyword must not leak: methods defined before it stay public
	verifExpect(out, "C16-v-fill", "C16/visibility-section-leaks-to-an-earlier-or-other-method/"+shape, base0+3, "Float")
	verifExpect(out, "C16-v-fill2", "C16/visibility-section-leaks-to-an-earlier-or-other-method/"+shape, outRow+1, "Float")
	verifExpect(out, "C16-v-fill3", "C16/visibility-section-leaks-to-an-earlier-or-other-method/"+shape, outRow+2, "Integer")
}

// ---- C20: declarations for classes a program never mentions ----

var verifExtraConfigs = []struct{ name, json string }{
	{"same-short-name-as-user-superclass-in-another-frame", `{"frame": "Other", "class": "Aa", "instance_methods": [{"name": "zork", "arguments": [], "return_type": {"type": ["Int"]}}], "class_methods": []}`},
	{"same-short-name-as-user-subclass-in-another-frame", `{"frame": "Other", "class": "Bb", "instance_methods": [{"name": "foo", "arguments": [{"type": ["Int"]}], "return_type": {"type": ["String"]}}], "class_methods": []}`},
	{"unrelated-class-in-builtin-frame", `{"frame": "Builtin", "class": "Zzunrelated", "instance_methods": [{"name": "foo", "arguments": [], "return_type": {"type": ["String"]}}], "class_methods": [{"name": "make", "arguments": [], "return_type": {"type": ["Zzunrelated"]}}]}`},
	{"unrelated-class-with-extends", `{"frame": "Builtin", "class": "Zzchild", "extends": ["Array"], "instance_methods": [{"name": "first", "arguments": [], "return_type": {"type": ["String"]}}], "class_methods": []}`},
	{"same-short-name-as-user-module", `{"frame": "Other", "class": "Mm", "instance_methods": [{"name": "mod_m", "arguments": [], "return_type": {"type": ["String"]}}], "class_methods": []}`},
	{"same-short-name-as-namespaced-user-module-in-a-nested-builtin-frame", `{"frame": "Builtin::Vendor", "class": "Hl", "instance_methods": [{"name": "twice", "arguments": [], "return_type": {"type": ["String"]}}, {"name": "other", "arguments": [], "return_type": {"type": ["Int"]}}], "class_methods": []}`},
	{"same-short-name-as-namespaced-user-class-in-builtin-frame", `{"frame": "Builtin", "class": "Gq", "instance_methods": [{"name": "gm", "arguments": [{"type": ["Int"]}], "return_type": {"type": ["String"]}}], "class_methods": [{"name": "new", "arguments": [{"type": ["Int"]}], "return_type": {"type": ["Gq"]}}]}`},
	{"unrelated-class-whose-methods-are-named-like-object-and-kernel-methods", `{"frame": "Builtin", "class": "Zzprobe", "instance_methods": [{"name": "sleep_ms", "arguments": [{"type": ["String"]}], "return_type": {"type": ["String"]}}, {"name": "system", "arguments": [{"type": ["Int"]}], "return_type": {"type": ["Int"]}}, {"name": "to_s", "arguments": [{"type": ["Int"]}], "return_type": {"type": ["Int"]}}, {"name": "nil?", "arguments": [{"type": ["Int"]}], "return_type": {"type": ["Int"]}}], "class_methods": [{"name": "methods", "arguments": [{"type": ["Int"]}], "return_type": {"type": ["Int"]}}]}`},
	{"unrelated-class-in-another-frame-whose-methods-are-named-like-object-and-array-methods", `{"frame": "Other", "class": "Zzprobe", "instance_methods": [{"name": "sleep_ms", "arguments": [{"type": ["String"]}], "return_type": {"type": ["String"]}}, {"name": "first", "arguments": [{"type": ["String"]}], "return_type": {"type": ["Float"]}}, {"name": "push", "arguments": [], "return_type": {"type": ["Float"]}}], "class_methods": []}`},
}

// VerifExtraConfig: the same program is analysed under the core configuration and under the
// core configuration plus one extra file (loaded by the real loader) that declares a class the
// program never mentions; diagnostics and -i output must be identical.
func VerifExtraConfig(n int) {
	x := verifExtraConfigs[verifapi.Concrete(verifapi.Int("extra", 0, len(verifExtraConfigs)-1))]
	withI := verifapi.Concrete(verifapi.Int("dash_i", 0, 1))
	s := verifInstallSym("a")
	verifapi.WitnessList("Sym.a", verifKN(s.ka))
	src := "module Mm\ndef mod_m\n1\nend\nend\nclass Aa\ninclude Mm\ndef foo\nSym.a\nend\nend\nclass Bb < Aa\ndef bar\nfoo\nend\nend\n" +
		"dbtp Bb.new.foo\ndbtp Aa.new.foo\ndbtp Bb.new.bar\ndbtp Bb.new.mod_m\nv = [1].first\ndbtp v\nBb.new.nope\n" +
		// calls the shipped signatures reject: an extra class must not make them acceptable
		"w = sleep_ms \"250\"\ndbtp w\nsystem 5\nt = 5.to_s(3)\ndbtp t\nq = 5.nil?(1)\ndbtp q\nf = [1].first(\"s\")\ndbtp f\ng = [1].push\ndbtp g\nm = Aa.methods(1)\ndbtp m\n" +
		// namespaced user module and class whose short names an extra file may reuse
		"module Ap\nmodule Hl\ndef twice(v)\nv\nend\nend\nclass Gq\ndef gm\n1.5\nend\nend\nend\nclass Gd\ninclude Ap::Hl\nend\ndbtp Gd.new.twice(Sym.a)\ndbtp Ap::Gq.new.gm\n"
	flags := cmd.NewExecuteFlags()
	if withI == 1 {
		flags.IsDefineInfo = true
		verifapi.Witness("flags", "-i")
	}
	verifapi.Witness("src", src)
	verifapi.Witness("extra-config", x.json)
	mark := verifapi.Snapshot()
	outA := verifRunFlags(src, flags, 0)
	verifapi.Restore(mark)
	verifapi.SetFile(".ti-config/zz_extra.json", x.json)
	verifapi.VfsOnly(".ti-config")
	builtin.VerifLoadConfigAgain()
	outB := verifRunFlags(src, flags, 0)
	verifapi.Reach("ran")
	verifapi.Classify("C20/output-changed-by-declaration-of-unmentioned-class/" + x.name)
	verifapi.Assert(outA == outB, "C20-same-output")
}

// ---- C17: block parameters and block locals ----

var verifBlockNames = []string{"each-do-one-param", "each-braces-one-param", "each_with_index-two-params", "surplus-parameter-is-nil", "hash-each-value",
	"times-integer-param", "each_char-string-param", "shadowed-outer-variable-restored", "block-local-not-visible-after", "nested-blocks", "no-params", "range-each",
	"shadowing-block-containing-a-block", "shadowing-brace-block-containing-a-brace-block", "inner-parameter-shadows-outer-block-local", "inner-parameter-shadows-outer-parameter",
	"pair-destructured", "two-pairs-destructured", "collect-item", "sort-two-params", "merge-three-params", "each_index", "hash-collect-item", "reject-unify",
	"one-param-on-pairs", "ragged-pairs-destructured", "hash-each-key-and-value", "each_with_index-on-pairs",
	"two-surplus-parameters-shadowing", "hash-each-two-surplus-parameters", "each_char-two-surplus-parameters", "times-three-surplus-parameters"}

func VerifBlocks(n int) {
	sk := verifapi.Concrete(verifapi.Int("skeleton", 0, len(verifBlockNames)-1))
	name := verifBlockNames[sk]
	s := verifInstallSym("a", "b")
	verifapi.WitnessList("Sym.a", verifKN(s.ka))
	verifapi.WitnessList("Sym.b", verifKN(s.kb))
	cls := func(what string) string { return "C17/" + what + "/" + name }
	uni := verifUnionAlts([]int{s.ka, s.kb})
	src := ""
	type ex struct {
		id   string
		row  int
		alts []string
		what string
	}
	var exps []ex
	switch sk {
	case 0:
		src = "a = [Sym.a, Sym.b]\na.each do |e|\ndbtp e\nend\n"
		exps = []ex{{"C17-p1", 3, uni, "block-parameter-type-wrong"}}
	case 1:
		src = "a = [Sym.a, Sym.b]\na.each { |e|\ndbtp e\n}\n"
		exps = []ex{{"C17-p1", 3, uni, "block-parameter-type-wrong"}}
	case 2:
		src = "a = [Sym.a, Sym.b]\na.each_with_index do |e, i|\ndbtp e\ndbtp i\nend\n"
		exps = []ex{{"C17-p1", 3, uni, "block-parameter-type-wrong"}, {"C17-p2", 4, []string{"Integer"}, "block-parameter-type-wrong"}}
	case 3:
		src = "a = [Sym.a, Sym.b]\na.each_with_index do |e, i, z|\ndbtp z\nend\n"
		exps = []ex{{"C17-p1", 3, []string{"NilClass"}, "surplus-parameter-not-nil"}}
	case 4:
		src = "h = {k: Sym.a, j: Sym.b}\nh.each do |k, v|\ndbtp v\nend\n"
		exps = []ex{{"C17-p1", 3, uni, "block-parameter-type-wrong"}}
	case 5:
		src = "x = Sym.a\n3.times do |i|\ndbtp i\nend\n"
		exps = []ex{{"C17-p1", 3, []string{"Integer"}, "block-parameter-type-wrong"}}
	case 6:
		src = "x = Sym.a\n\"ab\".each_char do |c|\ndbtp c\nend\n"
		exps = []ex{{"C17-p1", 3, []string{"String"}, "block-parameter-type-wrong"}}
	case 7:
		src = "e = Sym.b\na = [Sym.a]\na.each do |e|\ndbtp e\nend\ndbtp e\n"
		exps = []ex{{"C17-p1", 4, []string{verifKN(s.ka)}, "block-parameter-does-not-shadow"}, {"C17-p2", 6, []string{verifKN(s.kb)}, "shadowed-variable-not-restored"}}
	case 8:
		src = "a = [Sym.a]\na.each do |e|\nloc = 1\ndbtp loc\nend\ndbtp loc\n"
		exps = []ex{{"C17-p1", 4, []string{"Integer"}, "block-local-wrong-inside"}}
	case 9:
		src = "a = [Sym.a]\nb = [Sym.b]\na.each do |e|\nb.each do |f|\ndbtp f\nend\ndbtp e\nend\n"
		exps = []ex{{"C17-p1", 5, []string{verifKN(s.kb)}, "block-parameter-type-wrong"}, {"C17-p2", 7, []string{verifKN(s.ka)}, "outer-block-parameter-lost-after-inner-block"}}
	case 10:
		src = "a = [Sym.a]\na.each do\n1\nend\ndbtp a\n"
		exps = []ex{{"C17-p1", 5, verifArrayAlts([]int{s.ka}), "receiver-changed-by-block"}}
	case 11:
		src = "x = Sym.a\n(1..3).each do |i|\ndbtp i\nend\n"
		exps = []ex{{"C17-p1", 3, []string{"Integer"}, "block-parameter-type-wrong"}}
	case 12:
		src = "x = Sym.b\na = [Sym.a]\na.each do |x|\n3.times do |i|\ndbtp i\nend\ndbtp x\nend\ndbtp x\n"
		exps = []ex{{"C17-p1", 5, []string{"Integer"}, "block-parameter-type-wrong"}, {"C17-p2", 7, []string{verifKN(s.ka)}, "outer-block-parameter-lost-after-inner-block"},
			{"C17-p3", 9, []string{verifKN(s.kb)}, "shadowed-variable-not-restored"}}
	case 13:
		src = "x = Sym.b\na = [Sym.a]\na.each { |x|\n\"ab\".each_char { |c|\ndbtp c\n}\n}\ndbtp x\n"
		exps = []ex{{"C17-p1", 5, []string{"String"}, "block-parameter-type-wrong"}, {"C17-p2", 8, []string{verifKN(s.kb)}, "shadowed-variable-not-restored"}}
	case 14:
		src = "a = [Sym.a]\nb = [Sym.b]\na.each do |e|\nw = 1.5\nb.each do |w|\ndbtp w\nend\ndbtp w\nend\ndbtp w\n"
		exps = []ex{{"C17-p1", 6, []string{verifKN(s.kb)}, "block-parameter-does-not-shadow"}, {"C17-p2", 8, []string{"Float"}, "shadowed-variable-not-restored"}}
	case 16:
		src = "a = [[Sym.a, Sym.b]]\na.each do |m, n|\ndbtp m\ndbtp n\nend\n"
		exps = []ex{{"C17-p1", 3, []string{verifKN(s.ka)}, "block-parameter-type-wrong"}, {"C17-p2", 4, []string{verifKN(s.kb)}, "block-parameter-type-wrong"}}
	case 17:
		src = "a = [[Sym.a, 1], [Sym.b, \"s\"]]\na.each do |m, n|\ndbtp m\ndbtp n\nend\n"
		exps = []ex{{"C17-p1", 3, uni, "block-parameter-type-wrong"}, {"C17-p2", 4, verifUnionAlts([]int{base.VkInt, base.VkString}), "block-parameter-type-wrong"}}
	case 18:
		src = "a = [Sym.a, Sym.b]\na.collect do |e|\ndbtp e\nend\n"
		exps = []ex{{"C17-p1", 3, uni, "block-parameter-type-wrong"}}
	case 19:
		src = "a = [Sym.a, Sym.b]\na.sort do |x, y|\ndbtp x\ndbtp y\nend\n"
		exps = []ex{{"C17-p1", 3, uni, "block-parameter-type-wrong"}, {"C17-p2", 4, uni, "block-parameter-type-wrong"}}
	case 20:
		src = "h = {k: Sym.a}\nh.merge({j: Sym.b}) do |key, old, new|\ndbtp key\ndbtp old\ndbtp new\nend\n"
		exps = []ex{{"C17-p1", 3, []string{"Symbol"}, "block-parameter-type-wrong"}, {"C17-p2", 4, []string{verifKN(s.ka)}, "block-parameter-type-wrong"}, {"C17-p3", 5, []string{verifKN(s.kb)}, "block-parameter-type-wrong"}}
	case 21:
		src = "a = [Sym.a, Sym.b]\na.each_index do |i|\ndbtp i\nend\n"
		exps = []ex{{"C17-p1", 3, []string{"Integer"}, "block-parameter-type-wrong"}}
	case 22:
		src = "h = {k: Sym.a}\nx = Sym.b\nh.collect do |e|\ndbtp e\nend\n"
		exps = []ex{{"C17-p1", 4, verifArrayAlts([]int{base.VkSymbol, s.ka}), "block-parameter-type-wrong"}}
	case 23:
		src = "a = [Sym.a, Sym.b]\na.reject do |e|\ndbtp e\nend\n"
		exps = []ex{{"C17-p1", 3, uni, "block-parameter-type-wrong"}}
	case 24:
		src = "a = [[Sym.a, Sym.b]]\na.each do |m|\ndbtp m\nend\n"
		exps = []ex{{"C17-p1", 3, verifArrayAlts([]int{s.ka, s.kb}), "block-parameter-type-wrong"}}
	case 25:
		src = "a = [[Sym.a, 1.5], [Sym.b]]\na.each do |m, n|\ndbtp m\ndbtp n\nend\n"
		exps = []ex{{"C17-p1", 3, uni, "block-parameter-type-wrong"}, {"C17-p2", 4, verifUnionAlts([]int{base.VkFloat, base.VkNil}), "block-parameter-type-wrong"}}
	case 26:
		src = "h = {k: Sym.a, j: Sym.b}\nh.each do |k, v|\ndbtp k\ndbtp v\nend\n"
		exps = []ex{{"C17-p1", 3, []string{"untyped"}, "block-parameter-type-wrong"}, {"C17-p2", 4, uni, "block-parameter-type-wrong"}}
	case 27:
		src = "a = [[Sym.a, Sym.b]]\na.each_with_index do |m, i|\ndbtp m\ndbtp i\nend\n"
		exps = []ex{{"C17-p1", 3, verifArrayAlts([]int{s.ka, s.kb}), "block-parameter-type-wrong"}, {"C17-p2", 4, []string{"Integer"}, "block-parameter-type-wrong"}}
	case 28:
		src = "c = Sym.b\na = [Sym.a, 1]\na.each do |x, y, c|\ndbtp y\ndbtp c\nend\ndbtp c\n"
		exps = []ex{{"C17-p1", 4, []string{"NilClass"}, "surplus-parameter-not-nil"}, {"C17-p2", 5, []string{"NilClass"}, "surplus-parameter-not-nil"},
			{"C17-p3", 7, []string{verifKN(s.kb)}, "shadowed-variable-not-restored"}}
	case 29:
		src = "c = Sym.b\nh = {k: Sym.a}\nh.each do |k, v, b, c|\ndbtp b\ndbtp c\nend\ndbtp c\n"
		exps = []ex{{"C17-p1", 4, []string{"NilClass"}, "surplus-parameter-not-nil"}, {"C17-p2", 5, []string{"NilClass"}, "surplus-parameter-not-nil"},
			{"C17-p3", 7, []string{verifKN(s.kb)}, "shadowed-variable-not-restored"}}
	case 30:
		src = "c = Sym.b\nx = Sym.a\n\"ab\".each_char do |ch, b, c|\ndbtp ch\ndbtp b\ndbtp c\nend\ndbtp c\n"
		exps = []ex{{"C17-p1", 4, []string{"String"}, "block-parameter-type-wrong"}, {"C17-p2", 5, []string{"NilClass"}, "surplus-parameter-not-nil"},
			{"C17-p3", 6, []string{"NilClass"}, "surplus-parameter-not-nil"}, {"C17-p4", 8, []string{verifKN(s.kb)}, "shadowed-variable-not-restored"}}
	case 31:
		src = "x = Sym.a\ny = Sym.b\n3.times do |i, j, k, l|\ndbtp j\ndbtp k\ndbtp l\nend\n"
		exps = []ex{{"C17-p1", 4, []string{"NilClass"}, "surplus-parameter-not-nil"}, {"C17-p2", 5, []string{"NilClass"}, "surplus-parameter-not-nil"},
			{"C17-p3", 6, []string{"NilClass"}, "surplus-parameter-not-nil"}}
	case 15:
		src = "a = [Sym.a]\nb = [Sym.b]\na.each do |e|\nb.each do |e|\ndbtp e\nend\ndbtp e\nend\ndbtp a\n"
		exps = []ex{{"C17-p1", 5, []string{verifKN(s.kb)}, "block-parameter-does-not-shadow"}, {"C17-p2", 7, []string{verifKN(s.ka)}, "shadowed-variable-not-restored"},
			{"C17-p3", 9, verifArrayAlts([]int{s.ka}), "receiver-changed-by-block"}}
	}
	verifapi.Witness("src", src)
	out := verifRun(src)
	verifapi.Reach("ran")
	verifapi.Witness("engine-output", out)
	for _, e := range exps {
		verifExpectOneOf(out, e.id, cls(e.what), e.row, e.alts)
	}
	if sk == 8 {
		// a variable first assigned inside the block is not visible after it
		verifapi.Witness("C17-local.row", "6")
		verifapi.Witness("C17-local.demand", "not:Integer")
		verifapi.Classify(cls("block-local-visible-after-block"))
		verifapi.Assert(verifLine(out, 6) != "Integer", "C17-local")
	}
	if sk == 14 {
		verifapi.Witness("C17-local.row", "10")
		verifapi.Witness("C17-local.demand", "not:Float")
		verifapi.Classify(cls("block-local-visible-after-block"))
		verifapi.Assert(verifLine(out, 10) != "Float", "C17-local")
	}
}

// ---- C22: definition info and hover ----

func verifHasLine(out, prefix, suffix string) bool {
	if out == "" {
		return false
	}
	for _, l := range strings.Split(strings.TrimSuffix(out, "\n"), "\n") {
		if strings.HasPrefix(l, prefix) && strings.HasSuffix(l, suffix) {
			return true
		}
	}
	return false
}

// VerifDefineInfo: a class with methods under public / private / protected sections, def
// self., class << self, a multi-line signature, preceded by 0-2 blank lines (concretised);
// mode 0: -i hints name the def row, c/ or i/, and the visibility in effect; mode 1: --define
// records carry the def rows; mode 2: --hover on a call row (the row is a solver variable over
// the call rows) shows the called method's signature.
var visName3 = []string{"public", "private", "protected"}

func VerifDefineInfo(n int) {
	mode := verifapi.Concrete(verifapi.Int("mode", 0, 2))
	nb := verifapi.Concrete(verifapi.Int("blank", 0, 2))
	vis := verifapi.Concrete(verifapi.Int("vis", 0, 2))
	// visibility keyword inside the `class << self` block, left in effect when the block ends
	// (only combined with blank=0 to keep the product small)
	svis := verifapi.Concrete(verifapi.Int("svis", 0, 2))
	verifapi.Assume(svis == 0 || nb == 0)
	s := verifInstallSym("a")
	verifapi.WitnessList("Sym.a", verifKN(s.ka))
	src := ""
	for i := 0; i < nb; i++ {
		src += "\n"
	}
	row := nb
	line := func(l string) int { src += l + "\n"; row++; return row }
	line("class Kk")
	rPub := line("def pub_m(a)")
	line("a")
	line("end")
	rCls := line("def self.cls_m")
	line("1")
	line("end")
	visName := visName3[vis]
	if vis > 0 {
		line(visName)
	}
	rVis := line("def vis_m")
	line("2")
	line("end")
	if vis > 0 {
		line("public")
	}
	line("class << self")
	if svis > 0 {
		line(visName3[svis])
	}
	rSing := line("def sing_m")
	line("4")
	line("end")
	line("end")
	rAfter := line("def after_m")
	line("5")
	line("end")
	rOne := line("def e_one = 1")
	line("end")
	rTop := line("def top_m(x,")
	line("y)")
	line("x")
	line("end")
	rEnd := line("def endl(p,")
	line("q) = p")
	line("k = Kk.new")
	line("v = Sym.a")
	cPub := line("k.pub_m(v)")
	cTop := line("top_m(1, 2)")
	cCls := line("Kk.cls_m")
	cAfter := line("k.after_m")
	cOne := line("k.e_one")
	cEnd := line("endl(1, 2)")
	// methods whose result is an object of a class from another namespace
	line("class Pl")
	line("def initialize(v)")
	line("@v = v")
	line("end")
	line("end")
	line("module Ou")
	line("class Br")
	rMake := line("def make(y)")
	line("Pl.new(y)")
	line("end")
	rBuild := line("def self.build")
	line("Br.new")
	line("end")
	line("end")
	line("end")
	line("ob = Ou::Br.new")
	cMake := line("ob.make(1)")
	cBuild := line("Ou::Br.build")
	verifapi.Witness("src", src)
	flags := cmd.NewExecuteFlags()
	pre := "@./a.rb:::"
	shape := "blank" + verifItoa(nb) + "/" + visName
	if svis > 0 {
		shape += "/" + visName3[svis] + "-left-open-in-class-self-block"
	}
	switch mode {
	case 0:
		flags.IsDefineInfo = true
		verifapi.Witness("flags", "-i")
		out := verifRunFlags(src, flags, 0)
		verifapi.Reach("ran")
		chk := func(id string, r int, tag, what string) {
			verifapi.Witness(id+".prefix", pre+verifItoa(r)+":::")
			verifapi.Witness(id+".suffix", "["+tag+"]")
			verifapi.Classify("C22/-i-hint-wrong-row-tag-or-visibility/" + what)
			verifapi.Assert(verifHasLine(out, pre+verifItoa(r)+":::", "["+tag+"]"), id)
		}
		chk("C22-i-pub", rPub, "i/public", "public-instance-method")
		chk("C22-i-cls", rCls, "c/public", "def-self-method")
		chk("C22-i-vis", rVis, "i/"+visName, "method-under-"+visName+"-section")
		chk("C22-i-sing", rSing, "c/"+visName3[svis], "class-self-block-method")
		if svis > 0 {
			chk("C22-i-after", rAfter, "i/public", "method-after-class-self-block-ending-in-"+visName3[svis]+"-section")
		} else {
			chk("C22-i-after", rAfter, "i/public", "method-after-visibility-section-reset")
		}
		chk("C22-i-top", rTop, "i/public", "top-level-method-with-multi-line-signature")
		chk("C22-i-objret", rMake, "i/public", "method-returning-an-object-of-another-namespace")
		chk("C22-i-objret-cls", rBuild, "c/public", "class-method-returning-an-object-of-its-own-namespace")
		chk("C22-i-endless", rOne, "i/public", "endless-method")
		chk("C22-i-endless-multi", rEnd, "i/public", "endless-method-with-multi-line-signature")
	case 1:
		flags.IsDefineAllInfo = true
		verifapi.Witness("flags", "--define --row="+verifItoa(cPub))
		out := verifRunFlags(src, flags, cPub)
		verifapi.Reach("ran")
		chk := func(id string, class, m string, r int, what string) {
			l := "%:::" + class + ":::" + m + ":::./a.rb:::" + verifItoa(r)
			verifapi.Witness(id+".prefix", l)
			verifapi.Witness(id+".suffix", "")
			verifapi.Classify("C22/--define-record-missing-or-wrong-row/" + what)
			verifapi.Assert(verifHasLine(out, l, ""), id)
		}
		chk("C22-d-pub", "Kk", "pub_m", rPub, "public-instance-method")
		chk("C22-d-vis", "Kk", "vis_m", rVis, "method-under-"+visName+"-section")
		chk("C22-d-after", "Kk", "after_m", rAfter, "method-after-visibility-section-reset")
		chk("C22-d-top", "", "top_m", rTop, "top-level-method-with-multi-line-signature")
		chk("C22-d-endless", "Kk", "e_one", rOne, "endless-method")
		chk("C22-d-endless-multi", "", "endl", rEnd, "endless-method-with-multi-line-signature")
	case 2:
		flags.IsHover = true
		k := verifapi.Int("callrow", 0, 7)
		target := verifapi.PickInt(k, cPub, cTop, cCls, cAfter, cOne, cEnd, cMake, cBuild)
		want := verifapi.Pick(k, "pub_m", "top_m", "cls_m", "after_m", "e_one", "endl", "make", "build")
		verifapi.Witness("C22-hover.row", verifapi.Pick(k, verifItoa(cPub), verifItoa(cTop), verifItoa(cCls), verifItoa(cAfter), verifItoa(cOne), verifItoa(cEnd), verifItoa(cMake), verifItoa(cBuild)))
		verifapi.Witness("C22-hover.method", want)
		out := verifRunFlags(src, flags, target)
		verifapi.Reach("ran")
		verifapi.Witness("engine-output", out)
		verifapi.Classify("C22/hover-does-not-show-the-called-method/" + shape)
		verifapi.Assert(verifHasLine(out, "%"+want+":::", ""), "C22-hover")
	}
	_ = shape
}

// ---- C24: the LLM navigator's call graph ----

var verifCallSites = []struct {
	name, text string
	row        int
	owner      string
	n          int  // number of call sites (0 = 1)
	arg        bool // foo takes one parameter
}{
	{"top-level-statement", "foo\n", 1, "top level", 0, false},
	{"statement-inside-method", "def bar\nfoo\nend\n", 2, "bar", 0, false},
	{"inside-class-method", "class Kk\ndef baz\nx = foo\nend\nend\n", 3, "baz", 0, false},
	{"call-argument", "p(foo)\n", 1, "top level", 0, false},
	{"inside-do-block", "[1].each do |e|\nfoo\nend\n", 2, "top level", 0, false},
	{"if-condition", "if foo == 1\n2\nend\n", 1, "top level", 0, false},
	{"elsif-condition", "if 1 == 2\n2\nelsif foo == 1\n3\nend\n", 3, "top level", 0, false},
	{"unless-condition", "unless foo == 1\n2\nend\n", 1, "top level", 0, false},
	{"while-condition", "while foo == 1\n2\nend\n", 1, "top level", 0, false},
	{"assignment-right-hand-side", "y = foo\n", 1, "top level", 0, false},
	{"two-calls-in-one-expression", "y = foo(1) + foo(2)\n", 1, "top level", 2, true},
	{"nested-calls-on-one-row", "z = foo(foo(3))\n", 1, "top level", 2, true},
	{"two-calls-on-two-rows", "y = foo(1)\nz = foo(2)\n", 2, "top level", 2, true},
	{"two-calls-on-one-row-inside-method", "def bar\nfoo(1) + foo(2)\nend\n", 2, "bar", 2, true},
	{"call-with-argument", "y = foo(1)\n", 1, "top level", 1, true},
	{"three-calls-in-array-literal", "y = [foo(1), foo(2), foo(3)]\n", 1, "top level", 3, true},
}

// VerifCallGraph: method foo plus exactly one call site (kind concretised, preceded by 0-1
// unrelated lines) analysed with --llm-nav --target=foo: `total callers` must be 1 and the
// caller entry must name the call's row.
func VerifCallGraph(n int) {
	site := verifCallSites[verifapi.Concrete(verifapi.Int("site", 0, len(verifCallSites)-1))]
	pad := verifapi.Concrete(verifapi.Int("pad", 0, 1))
	s := verifInstallSym("a")
	verifapi.WitnessList("Sym.a", verifKN(s.ka))
	src := "def foo\nSym.a\nend\n"
	if site.arg {
		src = "def foo(a)\nSym.a\nend\n"
	}
	nsites := site.n
	if nsites == 0 {
		nsites = 1
	}
	rows := 3
	if pad == 1 {
		src += "zz = 1\n"
		rows++
	}
	src += site.text
	callRow := rows + site.row
	verifapi.Witness("src", src)
	verifapi.Witness("flags", "--llm-nav --target=foo")
	verifapi.Witness("C24.callrow", verifItoa(callRow))
	verifapi.Witness("C24.sites", verifItoa(nsites))
	os.Args = []string{"ti", "./a.rb", "--llm-nav", "--target=foo"}
	flags := cmd.NewExecuteFlags()
	flags.IsLlmNav = true
	out := verifRunFlags(src, flags, 0)
	verifapi.Reach("ran")
	verifapi.Classify("C24/total-callers-differs-from-number-of-call-sites/" + site.name)
	verifapi.Assert(verifHasLine(out, "  - total callers: "+verifItoa(nsites), ""), "C24-total")
	verifapi.Classify("C24/caller-entry-does-not-name-the-call-row/" + site.name)
	verifapi.Assert(verifHasLine(out, "    - call point: ./a.rb:"+verifItoa(callRow), ""), "C24-row")
}

// VerifCallGraphNamesakes: the target name is defined several times (top level, class Ka, class
// Kb, optionally a class method); --llm-nav --target=foo must print one section per
// definition, each with its own call site (row) and `total callers: 1`; a class-name target
// must list the methods of that class only.
func VerifCallGraphNamesakes(n int) {
	variant := verifapi.Concrete(verifapi.Int("variant", 0, 2))
	s := verifInstallSym("a")
	verifapi.WitnessList("Sym.a", verifKN(s.ka))
	src := "def foo(a)\nSym.a\nend\nclass Ka\ndef foo(a)\n1\nend\nend\nclass Kb\ndef foo(a)\n2\nend\ndef other(a)\n3\nend\nend\n"
	rows := verifCountLines(src)
	src += "x = foo(1)\ny = Ka.new.foo(2)\nz = Kb.new.foo(3)\nw = Kb.new.other(4)\n"
	target := []string{"foo", "Kb", "other"}[variant]
	verifapi.Witness("src", src)
	verifapi.Witness("flags", "--llm-nav --target="+target)
	os.Args = []string{"ti", "./a.rb", "--llm-nav", "--target=" + target}
	flags := cmd.NewExecuteFlags()
	flags.IsLlmNav = true
	out := verifRunFlags(src, flags, 0)
	verifapi.Reach("ran")
	verifapi.Witness("engine-output", out)
	want := func(id, line, what string) {
		verifapi.Witness(id+".line", line)
		verifapi.Classify("C24/" + what + "/target-" + target)
		verifapi.Assert(verifHasLine(out, line, ""), id)
	}
	wantNot := func(id, line, what string) {
		verifapi.Witness(id+".noline", line)
		verifapi.Classify("C24/" + what + "/target-" + target)
		verifapi.Assert(!verifHasLine(out, line, ""), id)
	}
	cp := func(r int) string { return "    - call point: ./a.rb:" + verifItoa(rows+r) }
	switch variant {
	case 0:
		want("C24-n-top", cp(1), "section-of-a-namesake-definition-missing")
		want("C24-n-ka", cp(2), "section-of-a-namesake-definition-missing")
		want("C24-n-kb", cp(3), "section-of-a-namesake-definition-missing")
		wantNot("C24-n-other", cp(4), "call-of-another-method-listed")
		verifapi.Witness("C24-n-count.count", "3")
		verifapi.Classify("C24/number-of-sections-differs-from-number-of-definitions/target-" + target)
		verifapi.Assert(strings.Count(out, "  - total callers: 1\n") == 3, "C24-n-count")
	case 1:
		want("C24-n-kb", cp(3), "method-of-the-target-class-missing")
		want("C24-n-other", cp(4), "method-of-the-target-class-missing")
		wantNot("C24-n-ka", cp(2), "method-of-another-class-listed")
		wantNot("C24-n-top", cp(1), "method-of-another-class-listed")
	case 2:
		want("C24-n-other", cp(4), "section-of-a-namesake-definition-missing")
		wantNot("C24-n-kb", cp(3), "call-of-another-method-listed")
	}
}

// VerifCallGraphNarrowed: call sites whose receiver is a union of user classes narrowed by
// `is_a?` tests (if/else, if/elsif/else, unless/else, inside a method or at top level): every
// `v.run` is a call site of exactly one class's `run`, so --llm-nav --target=run must list each
// branch's row under the class the branch narrows to, and nothing else.
func VerifCallGraphNarrowed(n int) {
	variant := verifapi.Concrete(verifapi.Int("variant", 0, 4))
	s := verifInstallSym("a")
	verifapi.WitnessList("Sym.a", verifKN(s.ka))
	three := variant == 1 || variant == 2 || variant == 4
	src := "class Ka\ndef run\nSym.a\nend\nend\nclass Kb\ndef run\n2\nend\nend\n"
	if three {
		src += "class Kc\ndef run\n3\nend\nend\ndef make(k)\nif k == 1\nKa.new\nelsif k == 2\nKb.new\nelse\nKc.new\nend\nend\n"
	} else {
		src += "def make(k)\nif k == 1\nKa.new\nelse\nKb.new\nend\nend\n"
	}
	rows := verifCountLines(src)
	// expected call rows (relative to rows) per class: Ka, Kb, Kc; 0 = no call site
	var ra, rb, rc int
	var name string
	switch variant {
	case 0:
		name = "if-else-over-two-classes-inside-method"
		src += "def pick(k)\nv = make(k)\nif v.is_a?(Ka)\nv.run\nelse\nv.run\nend\nend\npick(1)\n"
		ra, rb = 4, 6
	case 1:
		name = "if-elsif-else-over-three-classes-inside-method"
		src += "def pick(k)\nv = make(k)\nif v.is_a?(Ka)\nv.run\nelsif v.is_a?(Kb)\nv.run\nelse\nv.run\nend\nend\npick(1)\n"
		ra, rb, rc = 4, 6, 8
	case 2:
		name = "call-only-in-else-branch-after-two-tests"
		src += "def opt(k)\nw = make(k)\nif w.is_a?(Kc)\n0\nelsif w.is_a?(Ka)\n1\nelse\nw.run\nend\nend\nopt(2)\n"
		rb = 8
	case 3:
		name = "unless-else-over-two-classes-inside-method"
		src += "def pick(k)\nv = make(k)\nunless v.is_a?(Ka)\nv.run\nelse\nv.run\nend\nend\npick(1)\n"
		ra, rb = 6, 4
	case 4:
		name = "if-elsif-else-over-three-classes-at-top-level"
		src += "v = make(1)\nif v.is_a?(Ka)\nv.run\nelsif v.is_a?(Kb)\nv.run\nelse\nv.run\nend\n"
		ra, rb, rc = 3, 5, 7
	}
	verifapi.Witness("src", src)
	verifapi.Witness("flags", "--llm-nav --target=run")
	os.Args = []string{"ti", "./a.rb", "--llm-nav", "--target=run"}
	flags := cmd.NewExecuteFlags()
	flags.IsLlmNav = true
	out := verifRunFlags(src, flags, 0)
	verifapi.Reach("ran")
	verifapi.Witness("engine-output", out)
	sites := 0
	chk := func(id string, r int, class string) {
		if r == 0 {
			return
		}
		sites++
		line := "    - call point: ./a.rb:" + verifItoa(rows+r)
		verifapi.Witness(id+".line", line)
		verifapi.Classify("C24/call-site-in-narrowed-branch-not-listed/" + name + "/" + class)
		verifapi.Assert(verifHasLine(out, line, ""), id)
	}
	chk("C24-w-ka", ra, "first-class")
	chk("C24-w-kb", rb, "second-class")
	chk("C24-w-kc", rc, "third-class")
	verifapi.Witness("C24-w-count.count", verifItoa(sites))
	verifapi.Witness("C24-w-count.of", "    - call point: ")
	verifapi.Classify("C24/number-of-caller-entries-differs-from-number-of-call-sites/" + name)
	verifapi.Assert(strings.Count(out, "    - call point: ") == sites, "C24-w-count")
}

// ---- C27: same-named classes in different namespaces ----

// VerifNamespaces: a class group (Aa, Bb < Aa, optional Cc < Bb, an included module) analysed
// (T) at top level, (W) wrapped in `module Mm` with outside references qualified, (D) wrapped
// and next to a top-level decoy class with the same short name as the group's superclass but
// different methods. Outputs must agree apart from rows and the Mm:: qualification.
func VerifNamespaces(n int) {
	variant := verifapi.Concrete(verifapi.Int("variant", 0, 9))
	depth := verifapi.Concrete(verifapi.Int("depth", 2, 3))
	// the class method is called as `Bb.make` or, in the scope-operator form, as `Bb::make`
	sep := []string{".", "::"}[verifapi.Concrete(verifapi.Int("callsep", 0, 1))]
	s := verifInstallSym("a")
	verifapi.WitnessList("Sym.a", verifKN(s.ka))
	// the class group; q qualifies the superclass references (`class Bb < Mm::Nn::Aa`)
	groupQ := func(q string) string {
		g := "class Aa\ndef foo\nSym.a\nend\ndef self.make\n1\nend\nend\nclass Bb < " + q + "Aa\ndef bar\nfoo\nend\nend\n"
		if depth == 3 {
			g += "class Cc < " + q + "Bb\nend\n"
		}
		return g
	}
	group := groupQ("")
	last := "Bb"
	if depth == 3 {
		last = "Cc"
	}
	refs := func(q string) string {
		return "dbtp " + q + last + ".new.foo\ndbtp " + q + last + ".new.bar\ndbtp " + q + last + sep + "make\n" + q + last + sep + "make + \"x\"\n" + q + last + ".new.nope\n"
	}
	top := group + refs("")
	wrapped := "module Mm\n" + group + "end\n" + refs("Mm::")
	wrapped2q := "module Mm\nmodule Nn\n" + groupQ("Mm::Nn::") + "end\nend\n" + refs("Mm::Nn::")
	decoy := "class Aa\ndef foo\n\"decoy\"\nend\ndef other\n2\nend\nend\n"
	decoyAfter := "class Bb\ndef bar\n\"decoy\"\nend\nend\n"
	glines := verifCountLines(group)
	var a, b string
	var name string
	var at, delta int
	qual, wrap := "Mm::", 0 // wrap > 0: B is A wrapped in `wrap` modules, references qualified by qual
	switch variant {
	case 0: // top-level vs wrapped: wrapping adds `module Mm` before row 1 and `end` after the group
		a, b, name, wrap = top, wrapped, "wrapping-in-module-changes-analysis", 1
	case 1: // wrapped vs wrapped + decoy superclass namesake defined before
		a, b, name = wrapped, decoy+wrapped, "top-level-namesake-of-superclass-before"
		at, delta = 1, verifCountLines(decoy)
	case 2: // wrapped vs wrapped + decoy namesake of the subclass defined after the module
		a, b, name = wrapped, "module Mm\n"+group+"end\n"+decoyAfter+refs("Mm::"), "top-level-namesake-of-subclass-after"
		at, delta = glines+3, verifCountLines(decoyAfter)
	case 3: // top-level group vs the same with a namesake inside an unrelated module
		other := "module Zz\nclass Aa\ndef foo\n\"decoy\"\nend\nend\nend\n"
		a, b, name = top, other+top, "namesake-inside-unrelated-module-before"
		at, delta = 1, verifCountLines(other)
	case 4: // top level vs wrapped in one module with the superclass written qualified
		a, b, name, wrap = top, "module Mm\n"+groupQ("Mm::")+"end\n"+refs("Mm::"), "wrapping-in-module-with-qualified-superclass", 1
	case 5: // top level vs wrapped in two modules with the superclass written fully qualified
		a, b, name, wrap, qual = top, wrapped2q, "wrapping-in-two-modules-with-qualified-superclass", 2, "Mm::Nn::"
	case 6: // two-module group vs the same next to a namesake group in the reversed namespace
		rev := "module Nn\nmodule Mm\nclass Aa\ndef foo\n:decoy\nend\nend\nend\nend\n"
		a, b, name = wrapped2q, rev+wrapped2q, "namesake-in-reversed-namespace-before"
		at, delta = 1, verifCountLines(rev)
	case 7: // two-module group vs the same next to a top-level namesake of the superclass
		a, b, name = wrapped2q, decoy+wrapped2q, "top-level-namesake-of-superclass-before-two-module-group"
		at, delta = 1, verifCountLines(decoy)
	case 8, 9:
		// an attribute declared in the grandparent, a chain that leaves the namespace: Root and
		// Mid live in the module, Top < Mm::Mid at top level
		chain := func(q string) string {
			return "class Root\nattr_accessor :nm\ndef initialize\n@nm = Sym.a\nend\ndef rm\nSym.a\nend\nend\nclass Mid < " + q + "Root\nend\n"
		}
		use := func(q string) string {
			return "class Top < " + q + "Mid\nend\ndbtp Top.new.nm\ndbtp Top.new.rm\ndbtp " + q + "Mid.new.nm\nTop.new.nope\n"
		}
		glines = verifCountLines(chain(""))
		topV := chain("") + use("")
		wrappedV := "module Mm\n" + chain("Mm::") + "end\n" + use("Mm::")
		if variant == 8 {
			a, b, name, wrap = topV, wrappedV, "attribute-of-grandparent-through-a-chain-leaving-the-module", 1
		} else {
			spare := "class Spare\nattr_accessor :nm\ndef initialize\n@nm = 1.5\nend\nend\nclass Mid < Spare\nend\n"
			a, b, name = wrappedV, spare+wrappedV, "top-level-namesake-of-the-middle-class-with-another-parent"
			at, delta = 1, verifCountLines(spare)
		}
	}
	outA, outB := verifRunTwo(a, b)
	verifapi.Reach("ran")
	verifapi.Witness("srcA", a)
	verifapi.Witness("srcB", b)
	verifapi.Witness("C27.variant", verifItoa(variant))
	verifapi.Witness("C27.glines", verifItoa(glines))
	verifapi.Witness("C27.wrap", verifItoa(wrap))
	verifapi.Witness("C27.qual", qual)
	verifapi.Witness("C27-ns.at", verifItoa(at))
	verifapi.Witness("C27-ns.delta", verifItoa(delta))
	if sep == "::" {
		name += "/class-method-called-with-scope-operator"
	}
	verifapi.Classify("C27/" + name + "/depth" + verifItoa(depth))
	if wrap > 0 {
		// B's rows: +wrap for the `module` lines, and +wrap more after the group for their `end`s
		nb := verifDropShift(verifDropShift(strings.ReplaceAll(outB, qual, ""), glines+wrap+1, wrap), 1, wrap)
		verifapi.Assert(nb == outA, "C27-ns")
		return
	}
	verifapi.Assert(verifDropShift(outB, at, delta) == outA, "C27-ns")
}

// ---- C23: completion ----

const verifCfgHw = `{"frame": "Builtin", "class": "Hw", "extends": [], "instance_methods": [], "class_methods": [{"name": "probe", "arguments": [], "return_type": {"type": ["Hw::Unit"]}}, {"name": "new", "arguments": [{"type": ["Int"]}], "return_type": {"type": ["Hw"]}}]}`
const verifCfgHwUnit = `{"frame": "Builtin::Hw", "class": "Unit", "extends": [], "instance_methods": [{"name": "read_mv", "arguments": [], "return_type": {"type": ["Int"]}}], "class_methods": [{"name": "calibrate", "arguments": [], "return_type": {"type": ["NilClass"]}}]}`

// VerifSuggest: --suggest on a cursor row holding a receiver (with or without the trailing
// dot) after a small user hierarchy. The listing must contain the methods callable on the
// receiver (own, inherited, Object's) and none that only unrelated classes define, no class
// methods for an instance receiver (and vice versa), no private method of another class.
func VerifSuggest(n int) {
	recv := verifapi.Concrete(verifapi.Int("receiver", 0, 8))
	dot := verifapi.Concrete(verifapi.Int("dot", 0, 2))
	s := &verifSym{}
	if recv == 2 {
		s.ka = verifapi.Int("ka", 1, 2) // Integer or String
		builtin.VerifInstallSymValues([]string{"a"}, map[string]base.T{"a": *base.VerifKindT(s.ka)})
		verifapi.WitnessList("Sym.a", verifKN(s.ka))
	}
	src := "module Wk\ndef self.mod_static\n6\nend\ndef mod_inst\n7\nend\nend\nclass Aa\ninclude Wk\ndef pa\n1\nend\nprivate\ndef secret\n2\nend\nend\nclass Bb < Aa\ndef pb\n3\nend\ndef self.cb\n4\nend\nend\nclass Zz\ndef pz\n5\nend\nend\nk = Bb.new\nv = Sym.a\n"
	if recv != 2 {
		src = strings.Replace(src, "v = Sym.a\n", "v = 1\n", 1)
	}
	if recv == 4 {
		// a class receiver whose user-defined name has no lower-case letter
		src = "class SENSOR\ndef self.scan\n1\nend\ndef inst_s\n2\nend\nend\nclass ADC < SENSOR\ndef self.open\n3\nend\ndef inst_a\n4\nend\nend\nclass OTHER\ndef self.oth\n5\nend\nend\nv = 1\n"
	}
	if recv >= 6 {
		// configured classes outside the shipped files: Hw (top level, own `new`) and Hw::Unit
		// (declared in the nested frame Builtin::Hw), loaded by the real loader
		filesW := ""
		for _, f := range [][2]string{{"hw", verifCfgHw}, {"hw_unit", verifCfgHwUnit}} {
			verifapi.SetFile(".ti-config/"+f[0]+".json", f[1])
			filesW += f[0] + ".json\x1e" + f[1] + "\x1d"
		}
		verifapi.Witness("extra-config-files", filesW)
		verifapi.VfsOnly(".ti-config")
		builtin.VerifLoadConfigAgain()
	}
	if recv == 8 {
		src = strings.Replace(src, "v = 1\n", "v = Hw.probe\n", 1)
	}
	row := verifCountLines(src) + 1
	cursor := []string{"k", "Bb", "v", "[1]", "ADC", "Array", "Hw", "Hw::Unit", "v"}[recv]
	if dot >= 1 {
		cursor += "."
	}
	src += cursor + "\n"
	if dot == 2 {
		src += "zz = 1\n"
	}
	verifapi.Witness("src", src)
	verifapi.Witness("flags", "--suggest --row="+verifItoa(row))
	flags := cmd.NewExecuteFlags()
	flags.IsSuggest = true
	out := verifRunFlags(src, flags, row)
	verifapi.Reach("ran")
	form := []string{"receiver-alone", "receiver-with-trailing-dot", "receiver-with-trailing-dot-followed-by-a-statement"}[dot]
	rname := []string{"user-instance", "user-class", "configured-class-value", "array-literal", "user-class-with-upper-case-only-name",
		"configured-class-with-own-new", "extra-configured-class", "extra-configured-class-in-nested-frame", "value-of-extra-configured-class-in-nested-frame"}[recv]
	must := func(id, m, what string) {
		verifapi.Witness(id+".must", m)
		verifapi.Classify("C23/callable-method-not-listed/" + what + "/" + rname + "/" + form)
		verifapi.Assert(verifHasLine(out, "%"+m+":::", ""), id)
	}
	mustNot := func(id, m, what string) {
		verifapi.Witness(id+".mustnot", m)
		verifapi.Classify("C23/uncallable-method-listed/" + what + "/" + rname + "/" + form)
		verifapi.Assert(!verifHasLine(out, "%"+m+":::", ""), id)
	}
	switch recv {
	case 0:
		must("C23-own", "pb", "own-instance-method")
		must("C23-inh", "pa", "inherited-instance-method")
		must("C23-obj", "nil?", "object-method")
		mustNot("C23-unrel", "pz", "method-of-unrelated-class")
		mustNot("C23-static", "cb", "class-method-for-instance-receiver")
		mustNot("C23-priv", "secret", "private-method-of-another-class")
		must("C23-mix", "mod_inst", "instance-method-of-included-module")
		mustNot("C23-modstatic", "mod_static", "module-level-method-of-included-module")
	case 1:
		must("C23-own", "cb", "own-class-method")
		mustNot("C23-unrel", "pz", "method-of-unrelated-class")
		mustNot("C23-static", "pb", "instance-method-for-class-receiver")
		mustNot("C23-mix", "mod_inst", "instance-method-of-included-module-for-class-receiver")
		mustNot("C23-modstatic", "mod_static", "module-level-method-of-included-module")
	case 2:
		must("C23-own", verifapi.Pick(s.ka-1, "times", "upcase"), "configured-class-method")
		must("C23-obj", "nil?", "object-method")
		mustNot("C23-unrel", verifapi.Pick(s.ka-1, "upcase", "times"), "method-of-unrelated-class")
		mustNot("C23-unrel2", "pz", "method-of-unrelated-class")
	case 4:
		must("C23-own", "open", "own-class-method")
		must("C23-inh", "scan", "inherited-class-method")
		mustNot("C23-unrel", "oth", "method-of-unrelated-class")
		mustNot("C23-static", "inst_a", "instance-method-for-class-receiver")
	case 5:
		must("C23-own", "new", "configured-constructor")
		mustNot("C23-static", "push", "instance-method-for-class-receiver")
		mustNot("C23-unrel", "upcase", "method-of-unrelated-class")
	case 6:
		must("C23-own", "probe", "configured-class-method")
		must("C23-new", "new", "configured-constructor")
		mustNot("C23-unrel", "calibrate", "method-of-unrelated-class")
		mustNot("C23-unrel2", "pz", "method-of-unrelated-class")
	case 7:
		must("C23-own", "calibrate", "configured-class-method")
		mustNot("C23-static", "read_mv", "instance-method-for-class-receiver")
		mustNot("C23-unrel", "probe", "method-of-unrelated-class")
	case 8:
		must("C23-own", "read_mv", "configured-class-method")
		mustNot("C23-static", "calibrate", "class-method-for-instance-receiver")
		mustNot("C23-unrel", "probe", "method-of-unrelated-class")
		mustNot("C23-unrel2", "pz", "method-of-unrelated-class")
	case 3:
		must("C23-own", "push", "configured-class-method")
		mustNot("C23-unrel", "upcase", "method-of-unrelated-class")
		mustNot("C23-unrel2", "pb", "method-of-unrelated-class")
	}
}

// ---- C05: run-to-run determinism ----

var verifDetPrograms = []struct{ name, text string }{
	{"static-and-instance-namesakes", "class Kk\ndef self.ff\n1\nend\ndef ff\n\"s\"\nend\nend\nclass Jj\ndef ff\n2\nend\nend\nKk.ff\nKk.new.ff\nJj.new.ff\n"},
	{"same-class-name-in-two-modules", "module Ma\nclass Cc\ndef g\n1\nend\nend\nend\nmodule Mb\nclass Cc < String\ndef g\n2\nend\nend\nend\nx = Ma::Cc.new\nx.g\n"},
	{"overloaded-builtin-use", "a = [1, 2]\nb = a.first\nc = a.first(1)\nd = 1 + 2\ndef hh(v)\nv\nend\nhh(1)\nhh(\"s\")\n"},
	{"same-class-name-in-doubly-nested-modules", "module Ap\nmodule Va\nclass It\ndef g\n1\nend\nend\nend\nmodule Vb\nclass It < String\ndef g\n2\nend\nend\nend\nend\nmodule Wb\nmodule Va\nclass It\ndef g\n3\nend\nend\nend\nend\nx = Ap::Va::It.new\nx.g\n"},
	{"bare-class-name-prefix-on-the-last-row", "module Ma\nclass Wd\ndef g\n1\nend\nend\nend\nmodule Mb\nclass Wd\ndef g\n2\nend\nend\nend\nclass Wx\nend\nW\n"},
	{"inheritance-and-mixins", "module Mx\ndef mm\n1\nend\nend\nmodule My\ndef mm\n2\nend\nend\nclass Pa\ninclude Mx\nend\nclass Ka < Pa\ninclude My\nextend Mx\nend\nclass Kb < Pa\nend\nKa.new.mm\nKb.new.mm\nKa.mm\n"},
}

var verifDetModes = []string{"-i", "--suggest", "--hover", "--llm-nav", "--llm-nav --target=ff", "--llm-define", "--llm-class", "--extends --class=Cc", "--define", "", "--llm-nav --all", "--llm-define --class=Kk",
	"--extends --class=It", "--extends --class=Ka", "--llm-nav --target=g", "--llm-nav --target=mm", "--llm-define --class=It"}

func verifSortLines(s string) string {
	if s == "" {
		return ""
	}
	ls := strings.Split(strings.TrimSuffix(s, "\n"), "\n")
	for i := 1; i < len(ls); i++ {
		for j := i; j > 0 && ls[j] < ls[j-1]; j-- {
			ls[j], ls[j-1] = ls[j-1], ls[j]
		}
	}
	return strings.Join(ls, "\n") + "\n"
}

// VerifDeterminism: the same program in the same output mode analysed twice from the same
// state, where every `range` over the global signature / inheritance / call-point maps
// iterates forward or backward (one schedule variable per range statement, chosen
// independently in the two runs); outputs must be byte-identical (--define: as a set of lines).
func VerifDeterminism(n int) {
	pi := verifapi.Concrete(verifapi.Int("program", 0, len(verifDetPrograms)-1))
	mi := verifapi.Concrete(verifapi.Int("mode", 0, len(verifDetModes)-1))
	prog := verifDetPrograms[pi]
	verifDetRun(prog.text, prog.name, verifDetModes[mi])
}

var verifCorpusDetModes = []string{"-i", "--suggest", "--hover", "--llm-nav", "--llm-define", "--llm-class", "--define", "", "--llm-nav --all"}

// VerifCorpusDeterminism: the same two-runs-under-flipped-map-orders comparison on the
// repository's example programs.
func VerifCorpusDeterminism(n int) {
	src, name := verifCorpusPick()
	verifapi.Assume(verifCountLines(src) <= 10) // two analyses and a schedule variable per range statement: short examples only
	mi := verifapi.Concrete(verifapi.Int("mode", 0, len(verifCorpusDetModes)-1))
	verifDetRun(src, "example-"+name, verifCorpusDetModes[mi])
}

// verifDetRun: one program in one output mode, run twice from the same state with the
// iteration order of the global maps flipped in between; the outputs must be identical
// (--define: identical as sets of lines).
func verifDetRun(src, progName, mode string) {
	row := verifCountLines(src) // last line
	flags := cmd.NewExecuteFlags()
	args := []string{"ti", "./a.rb"}
	for _, f := range strings.Fields(mode) {
		args = append(args, f)
	}
	switch strings.Fields(mode + " x")[0] {
	case "-i":
		flags.IsDefineInfo = true
	case "--suggest":
		flags.IsSuggest = true
	case "--hover":
		flags.IsHover = true
	case "--llm-nav":
		if strings.Contains(mode, "--all") {
			flags.IsLlmNavAll = true
		} else {
			flags.IsLlmNav = true
		}
	case "--llm-define":
		flags.IsLlmDefine = true
	case "--llm-class":
		flags.IsLlmClass = true
	case "--extends":
		flags.IsExtends = true
	case "--define":
		flags.IsDefineAllInfo = true
	}
	target := 0
	if flags.IsSuggest || flags.IsHover || flags.IsDefineAllInfo {
		target = row
		args = append(args, "--row="+verifRowText(row))
	}
	os.Args = args
	verifapi.Witness("src", src)
	verifapi.Witness("flags", strings.Join(args[2:], " "))
	// run A iterates every map in the canonical (insertion) order; run B is free: if any two
	// orders give different outputs, one of them differs from the canonical one
	mark := verifapi.Snapshot()
	outA := verifRunFlags(src, flags, target)
	verifapi.Restore(mark)
	verifapi.FlipOrder(base.TSignatures)
	verifapi.FlipOrder(base.ClassInheritanceMap)
	verifapi.FlipOrder(base.MethodCallPoint)
	verifapi.FlipOrder(base.MethodCalleePoint)
	verifapi.FlipOrder(base.TSignatureDocument)
	verifapi.FlipAllMaps() // local maps of the printers (sets built from the global tables) too
	outB := verifRunFlags(src, flags, target)
	verifapi.Reach("ran")
	modeName := mode
	if modeName == "" {
		modeName = "diagnostics"
	}
	verifapi.Classify("C05/output-depends-on-map-iteration-order/" + strings.ReplaceAll(modeName, " ", "_") + "/" + progName)
	if flags.IsDefineAllInfo {
		verifapi.Assert(verifSortLines(outA) == verifSortLines(outB), "C05-same-output")
	} else {
		verifapi.Assert(outA == outB, "C05-same-output")
	}
}

// ---- C18: preloaded files ----

// verifRunPreload runs the rounds exactly as main does for a target file with preload files:
// cleanSimpleIdentifires, preload(round), evaluationLoop(target).
func verifRunPreload(src string) string {
	// the real main() reads .ti-loader.json and the preload files from the virtual file system
	verifapi.CatchExit(func() { verifRunProgram(src, "./a.rb", cmd.NewExecuteFlags(), 0) })
	return verifapi.TakeStdout()
}

var verifPreloadSkels = []struct {
	name   string
	chunks []string // top-level statement groups; a split keeps chunk boundaries
}{
	{"class-then-use", []string{"class Aa\ndef foo\nSym.a\nend\nend\n", "class Bb < Aa\ndef bar\nfoo\nend\nend\n", "o = Bb.new\ndbtp o.foo\ndbtp o.bar\nundefined_fn(1)\n"}},
	{"helper-method", []string{"def helper(v)\nv\nend\n", "x = helper(Sym.a)\n", "dbtp x\ny = helper(1)\ndbtp y\n"}},
	{"diagnostic-in-preloaded-part", []string{"z = 1 + \"s\"\nnope_fn(2)\n", "w = Sym.a\n", "dbtp w\ndbtp z\n"}},
	// the preloaded part leaves placeholders (never-assigned attribute, never-inferred parameter)
	{"attr-reader-never-assigned", []string{"class Hoge\nattr_reader :hog\nattr_accessor :acc\nend\n", "w = Sym.a\n", "h = Hoge.new\nh.hog\ndbtp h.acc\ndbtp w\n"}},
	{"uninferred-parameter", []string{"def test(x)\np x\nend\n", "w = Sym.a\n", "test(1, 2)\ntest(k: 1)\ndbtp w\n"}},
	{"instance-variable-and-constant", []string{"class Cc\nLIMIT = 3\ndef initialize(v)\n@v = v\nend\ndef get\n@v\nend\nend\n", "c = Cc.new(Sym.a)\n", "dbtp c.get\ndbtp Cc::LIMIT\nd = Cc.new(1.5)\ndbtp d.get\n"}},
	{"variable-reassigned-and-method-redefined-across-chunks", []string{"lim = 10\ndef label\n1\nend\n", "lim = Sym.a\ndef label\n\"s\"\nend\n", "dbtp lim\ndbtp label\nlim.upcase\nlim + 1\n"}},
	{"module-mixin", []string{"module Mm\ndef mix\n1\nend\nend\n", "class Dd\ninclude Mm\ndef own(a)\na\nend\nend\n", "d = Dd.new\ndbtp d.mix\ndbtp d.own(Sym.a)\nd.own\n"}},
}

// VerifPreload: the program is split at top-level statement boundaries into 1 or 2 preload
// files plus a target; the output must equal the output for the concatenation restricted to
// the target's lines (rows rebased), and no line may name a preload file.
func VerifPreload(n int) {
	sk := verifPreloadSkels[verifapi.Concrete(verifapi.Int("skeleton", 0, len(verifPreloadSkels)-1))]
	split := verifapi.Concrete(verifapi.Int("split", 0, 3)) // 0: [c0] | c1+c2 ; 1: [c0+c1] | c2 ; 2: [c0],[c1] | c2 ; 3: as 2, file names not in sorted order
	n0, n1 := "p0.rb", "p1.rb"
	if split == 3 {
		n0, n1 = "zz_first.rb", "aa_second.rb"
	}
	withI := verifapi.Concrete(verifapi.Int("dash_i", 0, 1))
	flags := cmd.NewExecuteFlags()
	if withI == 1 {
		flags.IsDefineInfo = true
		verifapi.Witness("flags", "-i")
	}
	s := verifInstallSym("a")
	verifapi.WitnessList("Sym.a", verifKN(s.ka))
	var pre []string
	target := ""
	switch split {
	case 0:
		pre, target = []string{sk.chunks[0]}, sk.chunks[1]+sk.chunks[2]
	case 1:
		pre, target = []string{sk.chunks[0] + sk.chunks[1]}, sk.chunks[2]
	case 2, 3:
		pre, target = []string{sk.chunks[0], sk.chunks[1]}, sk.chunks[2]
	}
	whole := ""
	for _, p := range pre {
		whole += p
	}
	preLines := verifCountLines(whole)
	whole += target
	verifapi.Witness("whole", whole)
	verifapi.Witness("target", target)
	verifapi.Witness("pre0", pre[0])
	loaderJSON := "{\"preload\": [\"" + n0 + "\"]}"
	if len(pre) == 2 {
		verifapi.Witness("pre1", pre[1])
		loaderJSON = "{\"preload\": [\"" + n0 + "\", \"" + n1 + "\"]}"
	}
	verifapi.Witness("C18.name0", n0)
	verifapi.Witness("C18.name1", n1)
	verifapi.Witness("C18.prelines", verifItoa(preLines))
	mark := verifapi.Snapshot()
	outWhole := verifRunFlags(whole, flags, 0)
	verifapi.Restore(mark)
	verifapi.SetFile(".ti-loader.json", loaderJSON)
	verifapi.SetFile(n0, pre[0])
	if len(pre) == 2 {
		verifapi.SetFile(n1, pre[1])
	}
	outSplit := verifRunFlags(target, flags, 0)
	verifapi.Reach("ran")
	shape := sk.name + "/" + []string{"one-preload-file-short", "one-preload-file-long", "two-preload-files", "two-preload-files-named-out-of-sorted-order"}[split] + []string{"", "/with-i"}[withI]
	verifapi.Classify("C18/output-names-a-preload-file/" + shape)
	verifapi.Assert(!strings.Contains(outSplit, n0) && !strings.Contains(outSplit, n1), "C18-hidden")
	verifapi.Classify("C18/output-differs-from-concatenation-restricted-to-target/" + shape)
	verifapi.Assert(outSplit == verifDropShift(outWhole, 1, preLines), "C18-prefix")
}

// ---- C19: config file names and splitting ----

const verifCfgPa = `{"frame": "Builtin", "class": "Pa", "instance_methods": [
 {"name": "m", "arguments": [{"type": ["Int"]}], "return_type": {"type": ["Int"]}},
 {"name": "m", "arguments": [{"type": ["String"]}], "return_type": {"type": ["String"]}},
 {"name": "only_pa", "arguments": [{"type": ["Int"]}, {"type": ["DefaultString"]}], "return_type": {"type": ["Bool"]}}],
 "class_methods": [{"name": "new", "arguments": [], "return_type": {"type": ["Pa"]}}]}`
const verifCfgCh = `{"frame": "Builtin", "class": "Ch", "extends": ["Pa"], "instance_methods": [
 {"name": "m", "arguments": [{"type": ["Symbol"]}], "return_type": {"type": ["Symbol"]}},
 {"name": "k", "arguments": [], "return_type": {"type": ["Float"]}}],
 "class_methods": [{"name": "new", "arguments": [], "return_type": {"type": ["Ch"]}}]}`
const verifCfgCh1 = `{"frame": "Builtin", "class": "Ch", "extends": ["Pa"], "instance_methods": [
 {"name": "k", "arguments": [], "return_type": {"type": ["Float"]}}],
 "class_methods": [{"name": "new", "arguments": [], "return_type": {"type": ["Ch"]}}]}`
const verifCfgCh2 = `{"frame": "Builtin", "class": "Ch", "instance_methods": [
 {"name": "m", "arguments": [{"type": ["Symbol"]}], "return_type": {"type": ["Symbol"]}}], "class_methods": []}`
const verifCfgGc = `{"frame": "Builtin", "class": "Gc", "extends": ["Ch"], "instance_methods": [],
 "class_methods": [{"name": "new", "arguments": [], "return_type": {"type": ["Gc"]}}]}`

const verifCfgKwMethods = `[
 {"name": "set", "arguments": [{"type": ["Int"]}, {"type": ["Int"], "key": "level:"}], "return_type": {"type": ["Int"]}},
 {"name": "dim", "arguments": [{"type": ["Int"], "key": "level:"}], "return_type": {"type": ["Int"]}},
 {"name": "fade", "arguments": [{"type": ["Int"], "key": "from:"}, {"type": ["Int"], "key": "to:", "is_default": true}], "return_type": {"type": ["Int"]}},
 {"name": "tri", "arguments": [{"type": ["Int"], "key": "ka:"}, {"type": ["String"], "key": "kb:"}, {"type": ["Int"], "key": "kc:", "is_default": true}], "return_type": {"type": ["Int"]}}]`
const verifCfgLa = `{"frame": "Builtin", "class": "La", "instance_methods": ` + verifCfgKwMethods + `, "class_methods": []}`
const verifCfgMo = `{"frame": "Builtin", "class": "Mo", "instance_methods": ` + verifCfgKwMethods + `, "class_methods": []}`
const verifCfgRig = `{"frame": "Builtin", "class": "Rig", "instance_methods": [], "class_methods": [
 {"name": "lamp", "arguments": [], "return_type": {"type": ["La"]}},
 {"name": "device", "arguments": [], "return_type": {"type": ["La", "Mo"]}}]}`

const verifCfgWiBuiltin = `{"frame": "Builtin", "class": "Wi", "instance_methods": [], "class_methods": [
 {"name": "build", "arguments": [], "return_type": {"type": ["Int"]}}, {"name": "only_b", "arguments": [], "return_type": {"type": ["Bool"]}}]}`
const verifCfgWiApp = `{"frame": "App", "class": "Wi", "instance_methods": [], "class_methods": [
 {"name": "build", "arguments": [], "return_type": {"type": ["String"]}}, {"name": "only_a", "arguments": [], "return_type": {"type": ["Float"]}}]}`
const verifCfgWiOther = `{"frame": "Other", "class": "Wi", "instance_methods": [], "class_methods": [
 {"name": "build", "arguments": [], "return_type": {"type": ["Symbol"]}}]}`
const verifCfgWiNested = `{"frame": "Builtin::App", "class": "Wi", "instance_methods": [], "class_methods": [
 {"name": "build", "arguments": [], "return_type": {"type": ["Float"]}}]}`

const verifCfgWiProbe = "dbtp Wi.build\ndbtp App::Wi.build\ndbtp Other::Wi.build\ndbtp Wi.only_b\ndbtp App::Wi.only_a\nx = Sym.a\ndbtp x\n"

const verifCfgProbe = "a = Pa.new\ndbtp a.m(1)\ndbtp a.m(\"s\")\nc = Ch.new\ndbtp c.m(:y)\ndbtp c.m(1)\ndbtp c.k\ng = Gc.new\ndbtp g.m(1)\ndbtp g.k\ndbtp a.m(Sym.a)\ndbtp c.m(Sym.a)\na.only_pa\nc.k(1)\na.m\n"

var verifPerm3Names = [][]string{{"a", "b", "c"}, {"a", "c", "b"}, {"b", "a", "c"}, {"b", "c", "a"}, {"c", "a", "b"}, {"c", "b", "a"}}

// VerifConfigOrder: the same three class declarations (a parent with an overloaded method, a
// child that extends it and re-declares the method, a grandchild) are loaded by the real
// loader (a) from files named so that the parent is read first, (b) from files renamed into
// another of the 6 load orders, or with the child's declarations split over two files placed
// around the parent; the probe program's output must be identical.
func VerifConfigOrder(n int) {
	variant := verifapi.Concrete(verifapi.Int("variant", 1, 11))
	s := verifInstallSym("a")
	verifapi.WitnessList("Sym.a", verifKN(s.ka))
	probe := verifCfgProbe
	load := func(files [][2]string) string {
		for _, f := range files {
			verifapi.SetFile(".ti-config/"+f[0]+".json", f[1])
		}
		verifapi.VfsOnly(".ti-config")
		builtin.VerifLoadConfigAgain()
		return verifRun(probe)
	}
	ref := [][2]string{{"a_pa", verifCfgPa}, {"b_ch", verifCfgCh}, {"c_gc", verifCfgGc}}
	var other [][2]string
	name := ""
	switch {
	case variant <= 5:
		p := verifPerm3Names[variant]
		other = [][2]string{{p[0] + "_pa", verifCfgPa}, {p[1] + "_ch", verifCfgCh}, {p[2] + "_gc", verifCfgGc}}
		name = "renamed-files-load-order-" + p[0] + p[1] + p[2] + "-for-parent-child-grandchild"
	case variant == 6:
		other = [][2]string{{"a_pa", verifCfgPa}, {"b_ch1", verifCfgCh1}, {"b_ch2", verifCfgCh2}, {"c_gc", verifCfgGc}}
		name = "child-split-in-two-files-after-parent"
	case variant == 7:
		other = [][2]string{{"a_ch1", verifCfgCh1}, {"b_pa", verifCfgPa}, {"c_ch2", verifCfgCh2}, {"d_gc", verifCfgGc}}
		name = "child-split-around-parent-extends-part-first"
	case variant == 8:
		other = [][2]string{{"a_ch2", verifCfgCh2}, {"b_pa", verifCfgPa}, {"c_ch1", verifCfgCh1}, {"d_gc", verifCfgGc}}
		name = "child-split-around-parent-method-part-first"
	case variant == 9:
		// one class name in two frames, each declaring a class method of the same name
		probe = verifCfgWiProbe
		ref = [][2]string{{"a_wb", verifCfgWiBuiltin}, {"b_wa", verifCfgWiApp}}
		other = [][2]string{{"b_wb", verifCfgWiBuiltin}, {"a_wa", verifCfgWiApp}}
		name = "same-class-name-in-builtin-and-app-frames-load-order-swapped"
	case variant == 10:
		probe = verifCfgWiProbe
		ref = [][2]string{{"a_wb", verifCfgWiBuiltin}, {"b_wa", verifCfgWiApp}, {"c_wo", verifCfgWiOther}}
		other = [][2]string{{"c_wb", verifCfgWiBuiltin}, {"b_wa", verifCfgWiApp}, {"a_wo", verifCfgWiOther}}
		name = "same-class-name-in-three-frames-load-order-reversed"
	default:
		probe = verifCfgWiProbe
		ref = [][2]string{{"a_wb", verifCfgWiBuiltin}, {"b_wn", verifCfgWiNested}}
		other = [][2]string{{"b_wb", verifCfgWiBuiltin}, {"a_wn", verifCfgWiNested}}
		name = "same-class-name-in-builtin-and-nested-builtin-frames-load-order-swapped"
	}
	verifapi.Witness("src", probe)
	filesW := ""
	for _, f := range other {
		filesW += f[0] + ".json\x1e" + f[1] + "\x1d"
	}
	verifapi.Witness("C19.files", filesW)
	mark := verifapi.Snapshot()
	outRef := load(ref)
	verifapi.Restore(mark)
	outOther := load(other)
	verifapi.Reach("ran")
	// the class names the probe rows whose output differs, so that a second defect on a layout
	// that already has a known one is a different class
	rowsDiff := ""
	for r := 1; r <= verifCountLines(probe); r++ {
		if verifLine(outRef, r) != verifLine(outOther, r) {
			rowsDiff += "-" + verifItoa(r)
		}
	}
	verifapi.Witness("C19.rows-that-differ", rowsDiff)
	verifapi.Classify("C19/output-depends-on-config-file-layout/" + name + "/rows" + rowsDiff)
	verifapi.Assert(outRef == outOther, "C19-same-output")
}

// ---- C21 at program level: every place of a configuration file that holds a type ----

const verifCfgNotationCompact = `{"frame": "Builtin", "class": "Na", "instance_methods": [
 {"name": "m1", "arguments": [{"type": ["?Int"]}], "block_parameters": ["?Int", "[String]", "Int|Float"], "return_type": {"type": ["[Int]"]}},
 {"name": "m2", "arguments": [{"type": ["*String"]}], "return_type": {"type": ["?String"]}},
 {"name": "m3", "arguments": [{"type": ["Int|String"]}, {"type": ["[Float]"], "key": "k:"}], "return_type": {"type": ["Int|NilClass"]}},
 {"name": "m4", "arguments": [{"type": ["?Int"]}, {"type": ["String"]}], "return_type": {"type": ["Int"]}},
 {"name": "m5", "arguments": [{"type": ["?Int"]}, {"type": ["String"], "key": "name:"}], "return_type": {"type": ["Int"]}},
 {"name": "m6", "arguments": [{"type": ["*Int"]}, {"type": ["String"]}], "return_type": {"type": ["Int"]}}],
 "class_methods": [{"name": "new", "arguments": [], "return_type": {"type": ["Na"]}},
 {"name": "cm", "arguments": [{"type": ["?String"]}], "block_parameters": ["[Int]"], "return_type": {"type": ["?Float"]}}],
 "constants": [{"name": "LIM", "return_type": {"type": ["?Int"]}}],
 "instance_properties": [{"name": "prop", "type": ["[String]"], "access": "reader"}]}`
const verifCfgNotationNamed = `{"frame": "Builtin", "class": "Nb", "instance_methods": [
 {"name": "m1", "arguments": [{"type": ["Int"], "is_default": true}], "block_parameters": ["OptionalInt", "StringArray", "Number"], "return_type": {"type": ["IntArray"]}},
 {"name": "m2", "arguments": [{"type": ["String"], "is_asterisk": true}], "return_type": {"type": ["OptionalString"]}},
 {"name": "m3", "arguments": [{"type": ["Int", "String"]}, {"type": ["FloatArray"], "key": "k:"}], "return_type": {"type": ["Int", "NilClass"]}},
 {"name": "m4", "arguments": [{"type": ["Int"], "is_default": true}, {"type": ["String"]}], "return_type": {"type": ["Int"]}},
 {"name": "m5", "arguments": [{"type": ["Int"], "is_default": true}, {"type": ["String"], "key": "name:"}], "return_type": {"type": ["Int"]}},
 {"name": "m6", "arguments": [{"type": ["Int"], "is_asterisk": true}, {"type": ["String"]}], "return_type": {"type": ["Int"]}}],
 "class_methods": [{"name": "new", "arguments": [], "return_type": {"type": ["Nb"]}},
 {"name": "cm", "arguments": [{"type": ["String"], "is_default": true}], "block_parameters": ["IntArray"], "return_type": {"type": ["OptionalFloat"]}}],
 "constants": [{"name": "LIM", "return_type": {"type": ["OptionalInt"]}}],
 "instance_properties": [{"name": "prop", "type": ["StringArray"], "access": "reader"}]}`

const verifNotationProgram = "a = Na.new\na.m1(1) do |x, y, z|\ndbtp x\ndbtp y\ndbtp z\nend\nr1 = a.m1\ndbtp r1\na.m1(\"s\")\nr2 = a.m2(\"a\", \"b\")\ndbtp r2\na.m2(1)\n" +
	"r3 = a.m3(Sym.a, k: [1.5])\ndbtp r3\na.m3(1.5)\nr4 = Na.cm do |q|\ndbtp q\nend\ndbtp r4\nNa.cm(1)\nw = Na::LIM\ndbtp w\nv = a.prop\ndbtp v\n" +
	"a.m4(1)\na.m4\nq4 = a.m4(1, \"s\")\ndbtp q4\na.m5(1)\na.m5\nq5 = a.m5(1, name: \"s\")\ndbtp q5\na.m6(1, 2)\nq6 = a.m6(1, 2, \"s\")\ndbtp q6\n"

// VerifNotationSites: two generated classes whose declarations are the same, written once in
// compact notation (?T, [T], A|B, *T) and once with the named forms / flags, in every place of
// a configuration file that holds a type (arguments, keyword arguments, return types, block
// parameters, constants, properties); loaded by the real loader; the same program run against
// each must print the same lines apart from the class name.
func VerifNotationSites(n int) {
	s := verifInstallSym("a")
	verifapi.WitnessList("Sym.a", verifKN(s.ka))
	filesW := ""
	for _, f := range [][2]string{{"na", verifCfgNotationCompact}, {"nb", verifCfgNotationNamed}} {
		verifapi.SetFile(".ti-config/"+f[0]+".json", f[1])
		filesW += f[0] + ".json\x1e" + f[1] + "\x1d"
	}
	verifapi.Witness("extra-config-files", filesW)
	verifapi.VfsOnly(".ti-config")
	builtin.VerifLoadConfigAgain()
	a := verifNotationProgram
	b := strings.ReplaceAll(a, "Na", "Nb")
	verifapi.Witness("srcA", a)
	verifapi.Witness("srcB", b)
	verifapi.Witness("rename-from", "Na")
	verifapi.Witness("rename-to", "Nb")
	outA, outB := verifRunTwo(a, b)
	verifapi.Reach("ran")
	verifapi.Witness("engine-output-compact", outA)
	verifapi.Witness("engine-output-named", outB)
	verifapi.Classify("C21/compact-and-named-notation-differ-in-a-configuration-file")
	verifapi.Assert(outB == strings.ReplaceAll(outA, "Na", "Nb"), "C21-sites")
}

// ---- C07 / C08 at program level: calls of real configured methods ----

type verifCallSkel struct {
	cfg  int // 0: shipped configuration; 1: + generated parent/child/grandchild (Pa, Ch, Gc); 2: + generated La, Mo, Rig (Rig.device returns La|Mo)
	name string
	src  string // uses Sym.a (argument or receiver) / Sym.u (union receiver); the call is on row 2 or 3
	row  int
	// ok: for a leaf of kind k the call certainly fits (true) or certainly fails (false)
	ok func(k int) bool
}

var verifCallSkels = []verifCallSkel{
	{0, "integer-plus-argument", "x = Sym.a\nr = 1 + x\n", 2, func(k int) bool { return k == base.VkInt || k == base.VkFloat }},
	{0, "string-plus-argument", "x = Sym.a\nr = \"s\" + x\n", 2, func(k int) bool { return k == base.VkString }},
	{0, "receiver-plus-integer", "x = Sym.a\nr = x + 1\n", 2, func(k int) bool { return k == base.VkInt || k == base.VkFloat }},
	{0, "array-push-untyped-parameter", "x = Sym.a\na = [1]\na.push(x)\n", 3, func(k int) bool { return true }},
	{0, "array-first-default-int", "x = Sym.a\nr = [1, 2].first(x)\n", 2, func(k int) bool { return k == base.VkInt }},
	{0, "string-times-integer", "x = Sym.a\nr = \"s\" * x\n", 2, func(k int) bool { return k == base.VkInt }},
	{0, "array-join-default-string", "x = Sym.a\nr = [1].join(x)\n", 2, func(k int) bool { return k == base.VkString }},
	{0, "integer-to_s-default-int", "x = Sym.a\nr = 5.to_s(x)\n", 2, func(k int) bool { return k == base.VkInt }},
	{0, "receiver-upcase", "x = Sym.a\nr = x.upcase\n", 2, func(k int) bool { return k == base.VkString }},
	{0, "too-many-arguments", "x = Sym.a\nr = \"s\".to_sym(x)\n", 2, func(k int) bool { return false }},
	{0, "too-few-arguments", "x = Sym.a\nr = [x].at\n", 2, func(k int) bool { return false }},
	{1, "configured-parent-overloaded-method", "a = Pa.new\nx = Sym.a\nr = a.m(x)\n", 3, func(k int) bool { return k == base.VkInt || k == base.VkString }},
	{1, "configured-parent-required-and-defaulted", "a = Pa.new\nx = Sym.a\nr = a.only_pa(x)\n", 3, func(k int) bool { return k == base.VkInt }},
	{1, "configured-parent-defaulted-argument", "a = Pa.new\nx = Sym.a\nr = a.only_pa(1, x)\n", 3, func(k int) bool { return k == base.VkString }},
	{1, "configured-child-own-method-too-many", "c = Ch.new\nx = Sym.a\nr = c.k(x)\n", 3, func(k int) bool { return false }},
	{1, "configured-grandchild-inherited-method", "g = Gc.new\nx = Sym.a\nr = g.only_pa(x)\n", 3, func(k int) bool { return k == base.VkInt }},
	{1, "configured-child-inherited-method", "c = Ch.new\nx = Sym.a\nr = c.only_pa(x)\n", 3, func(k int) bool { return k == base.VkInt }},
	{2, "union-of-configured-classes-keyword-only-call", "d = Rig.device\nx = Sym.a\nr = d.dim(level: x)\n", 3, func(k int) bool { return k == base.VkInt }},
	{2, "union-of-configured-classes-two-keywords", "d = Rig.device\nx = Sym.a\nr = d.fade(from: x, to: 3)\n", 3, func(k int) bool { return k == base.VkInt }},
	{2, "union-of-configured-classes-defaulted-keyword-omitted", "d = Rig.device\nx = Sym.a\nr = d.fade(from: x)\n", 3, func(k int) bool { return k == base.VkInt }},
	{2, "union-of-configured-classes-positional-and-keyword", "d = Rig.device\nx = Sym.a\nr = d.set(x, level: 2)\n", 3, func(k int) bool { return k == base.VkInt }},
	{2, "configured-class-keyword-only-call", "l = Rig.lamp\nx = Sym.a\nr = l.dim(level: x)\n", 3, func(k int) bool { return k == base.VkInt }},
	{2, "configured-class-keyword-only-call-twice", "l = Rig.lamp\nx = Sym.a\nl.dim(level: 1)\nr = l.dim(level: x)\n", 4, func(k int) bool { return k == base.VkInt }},
}

// VerifBuiltinCalls: a call of a real configured method with a receiver or argument of
// solver-chosen kind; the diagnostic for the call's row must be present when the call
// certainly fails (C07) and absent when it certainly fits (C08). With unionMode the leaf is
// the union Sym.u: certainly fails iff both kinds fail, certainly fits iff both fit.
func VerifBuiltinCalls(n int) {
	sk := verifCallSkels[verifapi.Concrete(verifapi.Int("skeleton", 0, len(verifCallSkels)-1))]
	unionMode := verifapi.Concrete(verifapi.Int("union", 0, 1))
	src := sk.src
	var fits, fails bool
	if sk.cfg == 1 {
		verifKindHi = 5 // the child re-declares m for Symbol: the leaf must be able to be one
	}
	if unionMode == 0 {
		s := verifInstallSym("a")
		verifapi.WitnessList("Sym.a", verifKN(s.ka))
		fits, fails = sk.ok(s.ka), !sk.ok(s.ka)
	} else {
		s := verifInstallSym("u")
		verifapi.WitnessList("Sym.u", verifKN(s.u1), verifKN(s.u2))
		src = strings.Replace(src, "Sym.a", "Sym.u", 1)
		fits, fails = sk.ok(s.u1) && sk.ok(s.u2), !sk.ok(s.u1) && !sk.ok(s.u2)
	}
	verifapi.Witness("src", src)
	if sk.cfg > 0 {
		filesW := ""
		files := [][2]string{{"a_pa", verifCfgPa}, {"b_ch", verifCfgCh}, {"c_gc", verifCfgGc}}
		if sk.cfg == 2 {
			files = [][2]string{{"la", verifCfgLa}, {"mo", verifCfgMo}, {"rig", verifCfgRig}}
		}
		for _, f := range files {
			verifapi.SetFile(".ti-config/"+f[0]+".json", f[1])
			filesW += f[0] + ".json\x1e" + f[1] + "\x1d"
		}
		verifapi.Witness("extra-config-files", filesW)
		verifapi.VfsOnly(".ti-config")
		builtin.VerifLoadConfigAgain()
	}
	out := verifRun(src)
	verifapi.Reach("ran")
	leaf := []string{"scalar-leaf", "union-leaf"}[unionMode]
	row := verifItoa(sk.row)
	if fails {
		verifapi.Witness("C07-call.row", row)
		verifapi.Witness("C07-call.demand", "diagnostic")
		verifapi.Classify("C07/certainly-failing-builtin-call-not-reported/" + sk.name + "/" + leaf)
		verifapi.Assert(verifLine(out, sk.row) != "", "C07-call")
	}
	if fits {
		verifapi.Witness("C08-call.row", row)
		verifapi.Witness("C08-call.demand", "none")
		verifapi.Classify("C08/certainly-fitting-builtin-call-reported/" + sk.name + "/" + leaf)
		verifapi.Assert(verifLine(out, sk.row) == "", "C08-call")
	}
}
