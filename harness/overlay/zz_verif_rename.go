package main

import (
	"strings"
	"ti/base"
	"ti/cmd"
	"ti/context"
	"ti/lexer"
	"ti/lexer/reader"
	"ti/parser"
	"ti/verifapi"
)

func vId(s string, sp bool) lexer.VerifTok  { return lexer.VerifIdent(s, sp) }
func vPu(c rune) lexer.VerifTok             { return lexer.VerifTok{Tok: c} }

func verifClassProg(n string) []lexer.VerifTok {
	nl := vPu('\n')
	return []lexer.VerifTok{
		vId("class", false), vId(n, true), nl,
		vId("def", true), vId("foo", true), nl,
		{Tok: base.INT, Val: int64(1), Space: true}, nl,
		vId("end", true), nl,
		vId("end", false), nl,
		vId("dbtp", false), vId(n, true), vPu('.'), vId("new", false), vPu('.'), vId("foo", false), nl,
	}
}

func verifRunToks(toks []lexer.VerifTok) {
	lexer.VerifToks = toks
	verifapi.StubLexer()
	flags := cmd.NewExecuteFlags()
	verifapi.CatchExit(func() {
		for _, round := range context.GetRounds() {
			lexer.VerifPos = 0
			p := parser.New(lexer.New(reader.VerifNew(nil)), "a.rb")
			cleanSimpleIdentifires()
			evaluationLoop(p, flags, round, false)
		}
	})
}

func VerifRename(n int) {
	k := verifapi.Int("name", 0, 4)
	name := verifapi.Pick(k, "Hx", "H", "Zed", "Qq", "Abc")
	mark := verifapi.Snapshot()
	verifRunToks(verifClassProg("Hx"))
	ref := verifapi.TakeStdout()
	verifapi.Restore(mark)
	verifRunToks(verifClassProg(name))
	got := verifapi.TakeStdout()
	verifapi.Reach("both-ran")
	verifapi.Assert(got == strings.ReplaceAll(ref, "Hx", name), "C13-class-rename")
}
