package main

import (
	"os"
	"strings"
	"ti/cmd"
	"ti/context"
	"ti/lexer"
	"ti/lexer/reader"
	"ti/parser"
	"ti/verifapi"
)

// verifRunProgram runs the REAL main() on the given source text: the text becomes the file
// `file` of the engine's virtual file system, os.Args is built from the flags and the target
// row, and main's own code does the rest (ValidateArgs, BuildFlags, the four rounds with
// getParser / ApplyParserFlags / cleanSimpleIdentifires / preload / evaluationLoop). The engine
// runs main's worker goroutine sequentially; the 500 ms watchdog is the step budget.
// Arguments the caller already placed in os.Args (--class=, --target=) are kept.
func verifRunProgram(src, file string, flags *cmd.ExecuteFlags, targetRow int) {
	verifapi.SetFile(strings.TrimPrefix(file, "./"), src)
	args := []string{"ti", file}
	add := func(on bool, fl ...string) {
		if on {
			args = append(args, fl...)
		}
	}
	add(flags.IsDefineInfo, "-i")
	add(flags.IsDefineAllInfo, "--define")
	add(flags.IsSuggest, "--suggest")
	add(flags.IsHover, "--hover")
	add(flags.IsExtends, "--extends")
	add(flags.IsLlmNavAll, "--llm-nav", "--all")
	add(flags.IsLlmNav, "--llm-nav")
	add(flags.IsLlmError, "--llm-error")
	add(flags.IsLlmDefine, "--llm-define")
	add(flags.IsLlmClass, "--llm-class")
	if targetRow > 0 {
		args = append(args, "--row="+verifRowText(targetRow))
	}
	for _, a := range os.Args {
		if strings.HasPrefix(a, "--class=") || strings.HasPrefix(a, "--target=") {
			args = append(args, a)
		}
	}
	os.Args = args
	main()
}

// verifRowText renders a (possibly solver-chosen) small row number.
func verifRowText(i int) string {
	if i < 10 {
		return verifapi.Pick(i, "0", "1", "2", "3", "4", "5", "6", "7", "8", "9")
	}
	return verifRowText(i/10) + verifRowText(i%10)
}

// verifRunRounds: the former in-harness copy of main's round loop (no goroutine, no os.Args,
// no file system); kept for the rune-level jobs whose input is a symbolic rune slice.
func verifRunRounds(src, file string, flags *cmd.ExecuteFlags, targetRow int, isLoad bool) {
	for _, round := range context.GetRounds() {
		lr := reader.VerifNew([]rune(src))
		p := parser.New(lexer.New(lr), file)
		if targetRow > 0 {
			p.LspTargetRow = targetRow
		}
		cleanSimpleIdentifires()
		evaluationLoop(p, flags, round, isLoad)
	}
}

func verifRounds(src, file string) {
	verifRunProgram(src, file, cmd.NewExecuteFlags(), 0)
}

// VerifRunSrc: concrete program, used for translator validation against the native binary.
func VerifRunSrc(n int) {
	verifRounds(verifapi.Source(), verifapi.FileName())
}


// ---- F2: short fragment sequences (C01, C02, C04) ----

// One representative per token category the lexer / parser.Read / Eval distinguish, every
// keyword that has a DynamicEvaluator, every operator the lexer emits, and the method names
// that have dedicated strategies.
var verifFrags = []string{
	// reduced alphabet (first verifCoreN entries)
	"x", "1", "\"s\"", "\n", "=", ".", ",", "(", ")", "[", "]", "{", "}", "|", "def", "end", "class", "if", "do", "Foo",
	"+", "?", ":", "each", "foo:", "@a", "<", "nil", "self", "in", "case", "when", "*s", "&b", "return", "new",
	// the rest
	"module", "unless", "elsif", "else", "while", "until", "for", "begin", "rescue", "private", "protected", "public",
	"yield", "then", "break", "and", "or", "not", "==", "!=", "=>", ">", "<=", "<<", "-", "*", "/", "%", "**", "&", "&&", "||",
	"!", "::", "..", "...", "&.", "->", "+=", "||=", "<=>", "#{", "=begin", "^", ";", "y", "$g", "FOO", ":sym", "**k", "A::B", "<<EOS",
	"dbtp", "p", "attr_reader", "attr_accessor", "include", "extend", "raise", "push", "replace", "merge", "nil?", "is_a?",
	"true", "false", "Integer", "String", "Array", "1.5", "first", "%w", "'q'", "`", "Hash", "puts", "class <<", "super", "lambda", "[]",
	"\"\"", "x.", "Foo.", "[1].", "@a.", "self.",
	// whole statements (multi-token constructs that k<=2 single tokens cannot form)
	"a, b = 1, \"s\"", "a, b = [1, 2]", "x ||= 1", "x = if true\n1\nelse\n2\nend", "x&.foo", "a[0] = 1", "h[:k] = 1", "[1].each { |e| e }",
	"-> { 1 }", "1..2", "x ? 1 : 2", "puts(\"a\", 1)", "\"a#{x}b\"", "begin\n1\nrescue => e\n2\nend", "while x\nbreak\nend", "case x\nwhen 1 then 2\nend",
	"x = *a", "def g(*a, **k, &b)\nend", "g(*a)", "x.y.z", "Foo::Bar.new", "@@c", "defined?", "next", "ensure", "loop do\nend", "def g = 1", "x = y = 1",
	"a, *b = 1, 2", "x.foo = 1", "x += 1", "[1, \"s\"].first", "{k: 1}[:k]", "return 1 if x", "foo 1, 2", "x.each_with_index do |e, i|\nend",
}

const verifCoreN = 36

var verifContexts = []string{
	"",
	"a = [1]\n",
	"a = [1]\na.",
	"h = {k: 1}\nh.",
	"s = \"t\"\ns.",
	"x = 1\nx ",
	"class A\n",
	"class A\ndef f(v)\n",
	"def f(v, w = 1)\n",
	"[1].each do |v|\n",
	"case 1\n",
	"x = true ? 1 : \"s\"\nx.",
	"def f(v)\nend\nf",
	"if x\n",
	"h = {k: 1}\nh[",
}

// verifFragText builds a program: a context prefix followed by <= k fragments joined by
// "" or " " (both matter: `a [` vs `a[`). Everything is concretised: one path per text.
func verifFragText(k, alphabet, ctxHi int) string {
	ctx := verifapi.Concrete(verifapi.Int("ctx", 0, ctxHi))
	text := verifContexts[ctx]
	n := verifapi.Concrete(verifapi.Int("len", 0, k))
	for i := 0; i < n; i++ {
		f := verifapi.Concrete(verifapi.Int("frag", 0, alphabet-1))
		if i > 0 {
			if verifapi.Concrete(verifapi.Int("sep", 0, 1)) == 1 {
				text += " "
			}
		}
		text += verifFrags[f]
	}
	if verifapi.Concrete(verifapi.Int("nl", 0, 1)) == 1 {
		text += "\n"
	}
	return text
}

func verifDiagLineOK(line, file string) bool {
	return strings.HasPrefix(line, file+":::") || strings.HasPrefix(line, "@"+file+":::")
}

// verifStdoutOK: every printed line is a diagnostic or -i hint of the target file.
func verifStdoutOK(out, file string) bool {
	if out == "" {
		return true
	}
	for _, line := range strings.Split(strings.TrimSuffix(out, "\n"), "\n") {
		if !verifDiagLineOK(line, file) {
			return false
		}
	}
	return true
}

func verifRunFrags(text string) {
	flags := cmd.NewExecuteFlags()
	flags.IsDefineInfo = verifapi.Bool("dash_i")
	verifapi.Witness("src", text)
	if flags.IsDefineInfo {
		verifapi.Witness("flags", "-i")
	} else {
		verifapi.Witness("flags", "")
	}
	verifapi.CatchExit(func() { verifRunProgram(text, "./a.rb", flags, 0) })
	out := verifapi.TakeStdout()
	verifapi.Reach("ran")
	verifapi.Classify("output/line-is-neither-diagnostic-nor-hint")
	verifapi.Assert(verifStdoutOK(out, "./a.rb"), "C01-output-lines")
}

// VerifFragTop: k fragments over the full alphabet at top level.
func VerifFragTop(k int) { verifRunFrags(verifFragText(k, len(verifFrags), 0)) }

// VerifFragCore: k fragments over the reduced alphabet at top level.
func VerifFragCore(k int) { verifRunFrags(verifFragText(k, verifCoreN, 0)) }

// VerifFragCtx: k fragments over the full alphabet after every context prefix.
func VerifFragCtx(k int) { verifRunFrags(verifFragText(k, len(verifFrags), len(verifContexts)-1)) }

// VerifFragCtxCore: k fragments over the reduced alphabet after every context prefix.
func VerifFragCtxCore(k int) { verifRunFrags(verifFragText(k, verifCoreN, len(verifContexts)-1)) }

// ---- C04: editor query modes ----

func verifModeLineOK(line string) bool {
	return strings.HasPrefix(line, "%") || strings.HasPrefix(line, "@") || strings.HasPrefix(line, "$") || strings.HasPrefix(line, "./a.rb:::")
}

func verifModeStdoutOK(out string) bool {
	if out == "" {
		return true
	}
	for _, line := range strings.Split(strings.TrimSuffix(out, "\n"), "\n") {
		if !verifModeLineOK(line) {
			return false
		}
	}
	return true
}

// verifRunModes: the fragment text analysed with --suggest / --hover / --define (mode
// concretised) and --row=N with N a solver variable in [0, lines+2].
func verifRunModes(text string) {
	mode := verifapi.Concrete(verifapi.Int("mode", 0, 2))
	lines := strings.Count(text, "\n") + 1
	row := verifapi.Int("row", 0, lines+2)
	flags := cmd.NewExecuteFlags()
	modeFlag := []string{"--suggest", "--hover", "--define"}[mode]
	switch mode {
	case 0:
		flags.IsSuggest = true
	case 1:
		flags.IsHover = true
	case 2:
		flags.IsDefineAllInfo = true
	}
	verifapi.Witness("src", text)
	verifapi.Witness("mode", modeFlag)
	verifapi.WitnessInt("row", row)
	verifapi.CatchExit(func() { verifRunProgram(text, "./a.rb", flags, row) })
	out := verifapi.TakeStdout()
	verifapi.Reach("ran")
	verifapi.Classify("C04/output-line-is-not-a-record-or-diagnostic/" + modeFlag)
	verifapi.Assert(verifModeStdoutOK(out), "C04-output-lines")
}

func VerifModesTop(k int)     { verifRunModes(verifFragText(k, len(verifFrags), 0)) }
func VerifModesCore(k int)    { verifRunModes(verifFragText(k, verifCoreN, 0)) }
func VerifModesCtxCore(k int) { verifRunModes(verifFragText(k, verifCoreN, len(verifContexts)-1)) }
