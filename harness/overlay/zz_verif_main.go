package main

import (
	"ti/builtin"
	"ti/cmd"
	"ti/context"
	"ti/lexer"
	"ti/lexer/reader"
	"ti/parser"
	"ti/verifapi"
)

func verifRounds(src, file string) {
	flags := cmd.NewExecuteFlags()
	for _, round := range context.GetRounds() {
		lr := reader.VerifNew([]rune(src))
		p := parser.New(lexer.New(lr), file)
		cleanSimpleIdentifires()
		evaluationLoop(p, flags, round, false)
	}
}

func VerifRunSrc(n int) {
	verifRounds(verifapi.Source(), verifapi.FileName())
}

func VerifRunSym(n int) {
	builtin.VerifInstallSym("a", "b")
	verifRounds(verifapi.Source(), verifapi.FileName())
}

func VerifTokens(k int) {
	n := verifapi.Int("len", 0, k)
	var toks []lexer.VerifTok
	for i := 0; i < n; i++ {
		toks = append(toks, lexer.VerifSymTok())
	}
	lexer.VerifToks = toks
	verifapi.StubLexer()
	flags := cmd.NewExecuteFlags()
	for _, round := range context.GetRounds() {
		lexer.VerifPos = 0
		p := parser.New(lexer.New(reader.VerifNew(nil)), "a.rb")
		cleanSimpleIdentifires()
		evaluationLoop(p, flags, round, false)
	}
	verifapi.Reach("done")
}
