package main

import (
	"os"
	"strings"
	"ti/cmd"
	"ti/context"
	"ti/lexer"
	"ti/lexer/reader"
	"ti/parser"
	"ti/verifapi"
)

// verifRunProgram runs the REAL main() on the given source text: the text becomes the file
// `file` of the engine's virtual file system, os.Args is built from the flags and the target
// row, and main's own code does the rest (ValidateArgs, BuildFlags, the four rounds with
// getParser / ApplyParserFlags / cleanSimpleIdentifires / preload / evaluationLoop). The engine
// runs main's worker goroutine sequentially; the 500 ms watchdog is the step budget.
// Arguments the caller already placed in os.Args (--class=, --target=) are kept.
func verifRunProgram(src, file string, flags *cmd.ExecuteFlags, targetRow int) {
	verifapi.SetFile(strings.TrimPrefix(file, "./"), src)
	args := []string{"ti", file}
	add := func(on bool, fl ...string) {
		if on {
			args = append(args, fl...)
		}
	}
	add(flags.IsDefineInfo, "-i")
	add(flags.IsDefineAllInfo, "--define")
	add(flags.IsSuggest, "--suggest")
	add(flags.IsHover, "--hover")
	add(flags.IsExtends, "--extends")
	add(flags.IsLlmNavAll, "--llm-nav", "--all")
	add(flags.IsLlmNav, "--llm-nav")
	add(flags.IsLlmError, "--llm-error")
	add(flags.IsLlmDefine, "--llm-define")
	add(flags.IsLlmClass, "--llm-class")
	if targetRow > 0 {
		args = append(args, "--row="+verifRowText(targetRow))
	}
	for _, a := range os.Args {
		if strings.HasPrefix(a, "--class=") || strings.HasPrefix(a, "--target=") {
			args = append(args, a)
		}
	}
	os.Args = args
	main()
}

// verifRowText renders a (possibly solver-chosen) small row number.
func verifRowText(i int) string {
	if i < 10 {
		return verifapi.Pick(i, "0", "1", "2", "3", "4", "5", "6", "7", "8", "9")
	}
	return verifRowText(i/10) + verifRowText(i%10)
}

// verifRunRounds: the former in-harness copy of main's round loop (no goroutine, no os.Args,
// no file system); kept for the rune-level jobs whose input is a symbolic rune slice.
func verifRunRounds(src, file string, flags *cmd.ExecuteFlags, targetRow int, isLoad bool) {
	for _, round := range context.GetRounds() {
		lr := reader.VerifNew([]rune(src))
		p := parser.New(lexer.New(lr), file)
		if targetRow > 0 {
			p.LspTargetRow = targetRow
		}
		cleanSimpleIdentifires()
		evaluationLoop(p, flags, round, isLoad)
	}
}

func verifRounds(src, file string) {
	verifRunProgram(src, file, cmd.NewExecuteFlags(), 0)
}

// VerifRunSrc: concrete program, used for translator validation against the native binary.
func VerifRunSrc(n int) {
	verifRounds(verifapi.Source(), verifapi.FileName())
}


// ---- F2: short fragment sequences (C01, C02, C04) ----

// One representative per token category the lexer / parser.Read / Eval distinguish, every
// keyword that has a DynamicEvaluator, every operator the lexer emits, and the method names
// that have dedicated strategies.
var verifFrags = []string{
	// reduced alphabet (first verifCoreN entries)
	"x", "1", "\"s\"", "\n", "=", ".", ",", "(", ")", "[", "]", "{", "}", "|", "def", "end", "class", "if", "do", "Foo",
	"+", "?", ":", "each", "foo:", "@a", "<", "nil", "self", "in", "case", "when", "*s", "&b", "return", "new",
	// the rest
	"module", "unless", "elsif", "else", "while", "until", "for", "begin", "rescue", "private", "protected", "public",
	"yield", "then", "break", "and", "or", "not", "==", "!=", "=>", ">", "<=", "<<", "-", "*", "/", "%", "**", "&", "&&", "||",
	"!", "::", "..", "...", "&.", "->", "+=", "||=", "<=>", "#{", "=begin", "^", ";", "y", "$g", "FOO", ":sym", "**k", "A::B", "<<EOS",
	"dbtp", "p", "attr_reader", "attr_accessor", "include", "extend", "raise", "push", "replace", "merge", "nil?", "is_a?",
	"true", "false", "Integer", "String", "Array", "1.5", "first", "%w", "'q'", "`", "Hash", "puts", "class <<", "super", "lambda", "[]",
	"\"\"", "x.", "Foo.", "[1].", "@a.", "self.",
	// whole statements (multi-token constructs that k<=2 single tokens cannot form)
	"a, b = 1, \"s\"", "a, b = [1, 2]", "x ||= 1", "x = if true\n1\nelse\n2\nend", "x&.foo", "a[0] = 1", "h[:k] = 1", "[1].each { |e| e }",
	"-> { 1 }", "1..2", "x ? 1 : 2", "puts(\"a\", 1)", "\"a#{x}b\"", "begin\n1\nrescue => e\n2\nend", "while x\nbreak\nend", "case x\nwhen 1 then 2\nend",
	"x = *a", "def g(*a, **k, &b)\nend", "g(*a)", "x.y.z", "Foo::Bar.new", "@@c", "defined?", "next", "ensure", "loop do\nend", "def g = 1", "x = y = 1",
	"a, *b = 1, 2", "x.foo = 1", "x += 1", "[1, \"s\"].first", "{k: 1}[:k]", "return 1 if x", "foo 1, 2", "x.each_with_index do |e, i|\nend",
	// anonymous / empty names, block-pass arguments, multi-line literals as arguments, wide rows
	"def \"\"\nend", "def g(*)\n1\nend\ng(1)", "def g(**)\nend", "def g(&)\nend", "[1, 2].max(1, &b)", "[1, 2].first(&b)", "[1].slice(\"x\ny\")", "[1].first(\"x\ny\")", "foo(\"x\ny\")",
	"[[1, 2, 3, 4, 5, 6, 7, 8, 9, 10, 11, 12, 13, 14, 15, 16, 17, 18, 19, 20, 21, 22]].each do |m, n|\nend", "[1].each do |m, *|\nend", "[1].each { |*| 1 }", "def g(a, b = 1, *c, d:, e: 2, **f, &h)\nend",
	"x = [1, 2, 3, 4, 5, 6, 7, 8, 9, 10, 11, 12, 13, 14, 15, 16, 17, 18, 19, 20, 21, 22]", "g(1, 2, 3, 4, 5, 6, 7, 8, 9, 10, 11, 12, 13, 14, 15, 16, 17, 18, 19, 20, 21, 22)", "a, b, c, d, e, f = 1, 2",
	// safe navigation on typed receivers, chained calls, calls on results of failing calls
	"n = nil\nn&.abs", "n = nil\nn&.abs.to_s", "s = \"a\"\ns&.upcase", "u = true ? 1 : nil\nu&.to_s", "[1].first&.to_s", "n = nil\nn.abs", "q = [1].nope\nq.first", "[1].first.nope.first",
	"h = {k: 1}\nh[:k]&.to_s", "class K\ndef m\nend\nend\nK.new&.m", "K.new.m(", "x = (1", "[1, 2].each do |e|", "def f(a", "for a", "class << self", "module M\nclass << self", "class A < B\nend\nclass B < A\nend",
	// calls with too few / too many arguments against signatures with an optional parameter before a required one, singleton definitions on an unknown receiver, multiple assignment from an unknown constant as a method's last statement
	"def q(a = 1, b)\nb\nend\nq()", "def q(a, b = 1, c)\nc\nend\nq(1)", "def q(a = 1, k:)\nk\nend\nq()", "def q(*r, z)\nend\nq()", "def q(a = 1, b = 2)\nend\nq(1, 2, 3)", "def q(k:, j: 2)\nend\nq(j: 1)",
	"class K2\ndef initialize(a = 1, b)\nend\nend\nK2.new", "def x.y\nend", "def self.y\nend", "def f\na, b = Foo\nend", "def f\na, b = foo\nend", "def f(\"\")\nend\nf(1)", "def f(:a)\nend\nf(1)", "def f(1)\nend\nf(1)",
	// an inheritance cycle whose classes are reopened with the superclass repeated, then used
	"class A < B\nend\nclass B < A\nend\nclass A < B\nend\nclass B < A\nend\nA.new.zz", "class A < A\nend\nclass A < A\nend\nA.new.zz",
}

const verifCoreN = 36

var verifContexts = []string{
	"",
	"a = [1]\n",
	"a = [1]\na.",
	"h = {k: 1}\nh.",
	"s = \"t\"\ns.",
	"x = 1\nx ",
	"class A\n",
	"class A\ndef f(v)\n",
	"def f(v, w = 1)\n",
	"[1].each do |v|\n",
	"case 1\n",
	"x = true ? 1 : \"s\"\nx.",
	"def f(v)\nend\nf",
	"if x\n",
	"h = {k: 1}\nh[",
}

// verifFragText builds a program: a context prefix followed by <= k fragments joined by
// "" or " " (both matter: `a [` vs `a[`). Everything is concretised: one path per text.
func verifFragText(k, alphabet, ctxHi int) string {
	ctx := verifapi.Concrete(verifapi.Int("ctx", 0, ctxHi))
	text := verifContexts[ctx]
	n := verifapi.Concrete(verifapi.Int("len", 0, k))
	for i := 0; i < n; i++ {
		f := verifapi.Concrete(verifapi.Int("frag", 0, alphabet-1))
		if i > 0 {
			if verifapi.Concrete(verifapi.Int("sep", 0, 1)) == 1 {
				text += " "
			}
		}
		text += verifFrags[f]
	}
	if verifapi.Concrete(verifapi.Int("nl", 0, 1)) == 1 {
		text += "\n"
	}
	return text
}

func verifDiagLineOK(line, file string) bool {
	return strings.HasPrefix(line, file+":::") || strings.HasPrefix(line, "@"+file+":::")
}

// verifStdoutOK: every printed line is a diagnostic or -i hint of the target file.
func verifStdoutOK(out, file string) bool {
	if out == "" {
		return true
	}
	for _, line := range strings.Split(strings.TrimSuffix(out, "\n"), "\n") {
		if !verifDiagLineOK(line, file) {
			return false
		}
	}
	return true
}

func verifRunFrags(text string) {
	flags := cmd.NewExecuteFlags()
	flags.IsDefineInfo = verifapi.Bool("dash_i")
	verifapi.Witness("src", text)
	if flags.IsDefineInfo {
		verifapi.Witness("flags", "-i")
	} else {
		verifapi.Witness("flags", "")
	}
	verifapi.CatchExit(func() { verifRunProgram(text, "./a.rb", flags, 0) })
	out := verifapi.TakeStdout()
	verifapi.Reach("ran")
	verifapi.Classify("output/line-is-neither-diagnostic-nor-hint")
	verifapi.Assert(verifStdoutOK(out, "./a.rb"), "C01-output-lines")
}

// VerifFragTop: k fragments over the full alphabet at top level.
// verifTokenN: the single-token part of the alphabet (the whole-statement fragments after it
// are only used alone, k = 1: pairs of them would square the job for little gain).
const verifTokenN = 122

func verifAlphabet(k int) int {
	if k >= 2 {
		return verifTokenN
	}
	return len(verifFrags)
}

func VerifFragTop(k int) { verifRunFrags(verifFragText(k, verifAlphabet(k), 0)) }

// VerifFragCore: k fragments over the reduced alphabet at top level.
func VerifFragCore(k int) { verifRunFrags(verifFragText(k, verifCoreN, 0)) }

// VerifFragCtx: k fragments over the full alphabet after every context prefix.
func VerifFragCtx(k int) { verifRunFrags(verifFragText(k, verifAlphabet(k), len(verifContexts)-1)) }

// VerifFragCtxCore: k fragments over the reduced alphabet after every context prefix.
func VerifFragCtxCore(k int) { verifRunFrags(verifFragText(k, verifCoreN, len(verifContexts)-1)) }

// ---- C04: editor query modes ----

func verifModeLineOK(line string) bool {
	return strings.HasPrefix(line, "%") || strings.HasPrefix(line, "@") || strings.HasPrefix(line, "$") || strings.HasPrefix(line, "./a.rb:::")
}

func verifModeStdoutOK(out string) bool {
	if out == "" {
		return true
	}
	for _, line := range strings.Split(strings.TrimSuffix(out, "\n"), "\n") {
		if !verifModeLineOK(line) {
			return false
		}
	}
	return true
}

// verifRunModes: the fragment text analysed with --suggest / --hover / --define (mode
// concretised) and --row=N with N a solver variable in [0, lines+2].
func verifRunModes(text string) {
	mode := verifapi.Concrete(verifapi.Int("mode", 0, 2))
	lines := strings.Count(text, "\n") + 1
	row := verifapi.Int("row", 0, lines+2)
	flags := cmd.NewExecuteFlags()
	modeFlag := []string{"--suggest", "--hover", "--define"}[mode]
	switch mode {
	case 0:
		flags.IsSuggest = true
	case 1:
		flags.IsHover = true
	case 2:
		flags.IsDefineAllInfo = true
	}
	verifapi.Witness("src", text)
	verifapi.Witness("mode", modeFlag)
	verifapi.WitnessInt("row", row)
	verifapi.CatchExit(func() { verifRunProgram(text, "./a.rb", flags, row) })
	out := verifapi.TakeStdout()
	verifapi.Reach("ran")
	verifapi.Classify("C04/output-line-is-not-a-record-or-diagnostic/" + modeFlag)
	verifapi.Assert(verifModeStdoutOK(out), "C04-output-lines")
}

func VerifModesTop(k int)     { verifRunModes(verifFragText(k, verifAlphabet(k), 0)) }
func VerifModesCore(k int)    { verifRunModes(verifFragText(k, verifCoreN, 0)) }
func VerifModesCtxCore(k int) { verifRunModes(verifFragText(k, verifCoreN, len(verifContexts)-1)) }

// ---- corpus-based jobs: the repository's own example programs under symbolic edits ----

// verifCorpusPick chooses one of the selected example programs (concretised: one family of
// paths per program).
func verifCorpusPick() (string, string) {
	n := verifapi.CorpusCount()
	hi := verifapi.Concrete(verifapi.Int("corpus_hi", 0, (n-1)/200))
	lo := verifapi.Concrete(verifapi.Int("corpus_lo", 0, 199))
	i := hi*200 + lo
	verifapi.Assume(i < n)
	return verifapi.CorpusSource(i), verifapi.CorpusName(i)
}

func verifLinesOf(src string) []string {
	ls := strings.Split(src, "\n")
	if len(ls) > 0 && ls[len(ls)-1] == "" {
		ls = ls[:len(ls)-1]
	}
	return ls
}

// verifShiftRows: drop the lines reported for rows [at, at+delta) and move later rows back.
func verifShiftRows(out string, at, delta int) string {
	if out == "" {
		return ""
	}
	res := ""
	for _, l := range strings.Split(strings.TrimSuffix(out, "\n"), "\n") {
		parts := strings.SplitN(l, ":::", 3)
		if len(parts) < 3 {
			res += l + "\n"
			continue
		}
		row, ok := 0, len(parts[1]) > 0
		for _, c := range parts[1] {
			if c < '0' || c > '9' {
				ok = false
				break
			}
			row = row*10 + int(c-'0')
		}
		if !ok {
			res += l + "\n"
			continue
		}
		if row >= at && row < at+delta {
			continue
		}
		if row >= at+delta {
			row -= delta
		}
		res += parts[0] + ":::" + verifRowText(row) + ":::" + parts[2] + "\n"
	}
	return res
}

func verifRunText(src string, flags *cmd.ExecuteFlags, row int) string {
	verifapi.CatchExit(func() { verifRunProgram(src, "./a.rb", flags, row) })
	return verifapi.TakeStdout()
}

// VerifCorpusLayout (C06): an example program and the same program with a blank line or a
// comment-only line inserted before a solver-chosen row; the outputs must agree up to the
// row shift.
func VerifCorpusLayout(n int) {
	src, name := verifCorpusPick()
	lines := verifLinesOf(src)
	at := verifapi.Concrete(verifapi.Int("row", 1, len(lines)+1))
	edit := verifapi.Concrete(verifapi.Int("edit", 0, 1))
	ins := []string{"", "# note"}[edit]
	b := ""
	for i, l := range lines {
		if i+1 == at {
			b += ins + "\n"
		}
		b += l + "\n"
	}
	if at == len(lines)+1 {
		b += ins + "\n"
	}
	a := strings.Join(lines, "\n") + "\n"
	verifapi.Witness("srcA", a)
	verifapi.Witness("srcB", b)
	verifapi.Witness("program", name)
	verifapi.Witness("C06-corpus.at", verifRowText(at))
	verifapi.Witness("C06-corpus.delta", "1")
	mark := verifapi.Snapshot()
	outA := verifRunText(a, cmd.NewExecuteFlags(), 0)
	verifapi.Restore(mark)
	outB := verifRunText(b, cmd.NewExecuteFlags(), 0)
	verifapi.Reach("ran")
	verifapi.Classify("C06/example-program-output-changed-by-inserted-" + []string{"blank-line", "comment-line"}[edit] + "/" + name)
	verifapi.Assert(verifShiftRows(outB, at, 1) == outA, "C06-corpus")
}

func verifFirstWord(s string) string {
	i := 0
	for i < len(s) && ((s[i] >= 'a' && s[i] <= 'z') || (s[i] >= 'A' && s[i] <= 'Z') || s[i] == '_' || (s[i] >= '0' && s[i] <= '9')) {
		i++
	}
	return s[:i]
}

func verifIn(w string, set ...string) bool {
	for _, x := range set {
		if w == x {
			return true
		}
	}
	return false
}

func verifIndented(s string) bool { return len(s) > 0 && (s[0] == ' ' || s[0] == '\t') }

// verifTopBoundaries: rows r (1-based) such that the text before row r and the text from row r
// on are both sequences of complete top-level statements: row r and the previous non-blank
// row are unindented, row r does not continue or close anything, and the previous row is
// `end` or a complete one-line statement. Programs with heredocs or =begin blocks give none.
func verifTopBoundaries(lines []string) []int {
	for _, l := range lines {
		if strings.Contains(l, "<<") || strings.HasPrefix(l, "=begin") {
			return nil
		}
	}
	var res []int
	prev := ""
	for i, s := range lines {
		t := strings.TrimSpace(s)
		if t == "" || strings.HasPrefix(t, "#") {
			continue
		}
		if i > 0 && prev != "" && !verifIndented(s) && !verifIndented(prev) {
			w := verifFirstWord(s)
			closer := verifIn(w, "end", "else", "elsif", "when", "rescue", "ensure", "in", "then", "do", "and", "or") || strings.ContainsAny(s[:1], "}]).&|")
			pt := strings.TrimRight(prev, " \t")
			pw := verifFirstWord(prev)
			opener := verifIn(pw, "class", "module", "def", "if", "unless", "while", "until", "case", "begin", "for")
			cont := strings.ContainsAny(pt[len(pt)-1:], "{[(,\\.+-*/=&|<>") || strings.HasSuffix(pt, " do") || strings.HasSuffix(pt, " and") || strings.HasSuffix(pt, " or") || strings.HasSuffix(pt, " then") ||
				(strings.HasSuffix(pt, "|") && strings.Contains(pt, " do |")) || pt == "do"
			if !closer && (pt == "end" || !(opener || cont)) {
				res = append(res, i+1)
			}
		}
		prev = s
	}
	return res
}

// VerifCorpusPreload (C18): an example program split at a solver-chosen top-level boundary
// into a preload file and a target; the target's output must equal the whole program's
// output restricted to the target's rows (rebased), and must not name the preload file.
func VerifCorpusPreload(n int) {
	src, name := verifCorpusPick()
	lines := verifLinesOf(src)
	bs := verifTopBoundaries(lines)
	verifapi.Assume(len(bs) > 0)
	b := bs[verifapi.Concrete(verifapi.Int("boundary", 0, len(bs)-1))]
	pre := strings.Join(lines[:b-1], "\n") + "\n"
	target := strings.Join(lines[b-1:], "\n") + "\n"
	whole := pre + target
	verifapi.Witness("whole", whole)
	verifapi.Witness("target", target)
	verifapi.Witness("pre0", pre)
	verifapi.Witness("program", name)
	verifapi.Witness("C18.prelines", verifRowText(b-1))
	mark := verifapi.Snapshot()
	outWhole := verifRunText(whole, cmd.NewExecuteFlags(), 0)
	verifapi.Restore(mark)
	verifapi.SetFile(".ti-loader.json", "{\"preload\": [\"p0.rb\"]}")
	verifapi.SetFile("p0.rb", pre)
	outSplit := verifRunText(target, cmd.NewExecuteFlags(), 0)
	verifapi.Reach("ran")
	verifapi.Classify("C18/example-program-output-names-the-preload-file/" + name)
	verifapi.Assert(!strings.Contains(outSplit, "p0.rb"), "C18-hidden")
	verifapi.Classify("C18/example-program-split-output-differs-from-concatenation/" + name)
	verifapi.Assert(outSplit == verifShiftRows(outWhole, 1, b-1), "C18-prefix")
}

var verifCorpusFragments = []struct{ name, text string }{
	{"conditional", "zqa = nil\nif zqa.nil?\nzqa\nend\n"},
	{"array-and-block", "zqb = [1, \"s\"]\nzqb.each do |zqe|\nzqe\nend\n"},
	{"builtin-call-on-union", "zqc = true ? 1 : \"s\"\nzqd = zqc * 2\n"},
	{"hash-and-index", "zqh = {k: 1}\nzqv = zqh[:k]\n"},
}

// VerifCorpusInterfere (C11): an independent fragment (no user-defined names shared, no class
// or method defined) inserted at a solver-chosen top-level boundary of an example program; the
// program's own output lines must be unchanged up to the row shift.
func VerifCorpusInterfere(n int) {
	src, name := verifCorpusPick()
	lines := verifLinesOf(src)
	bs := verifTopBoundaries(lines)
	verifapi.Assume(len(bs) > 0)
	at := bs[verifapi.Concrete(verifapi.Int("boundary", 0, len(bs)-1))]
	f := verifCorpusFragments[verifapi.Concrete(verifapi.Int("fragment", 0, len(verifCorpusFragments)-1))]
	a := strings.Join(lines, "\n") + "\n"
	b := strings.Join(lines[:at-1], "\n") + "\n" + f.text + strings.Join(lines[at-1:], "\n") + "\n"
	delta := strings.Count(f.text, "\n")
	verifapi.Witness("srcA", a)
	verifapi.Witness("srcB", b)
	verifapi.Witness("program", name)
	verifapi.Witness("C11-corpus.at", verifRowText(at))
	verifapi.Witness("C11-corpus.delta", verifRowText(delta))
	mark := verifapi.Snapshot()
	outA := verifRunText(a, cmd.NewExecuteFlags(), 0)
	verifapi.Restore(mark)
	outB := verifRunText(b, cmd.NewExecuteFlags(), 0)
	verifapi.Reach("ran")
	verifapi.Classify("C11/example-program-output-changed-by-independent-fragment/" + f.name + "/" + name)
	verifapi.Assert(verifShiftRows(outB, at, delta) == outA, "C11-corpus")
}

// VerifCorpusModes (C04): --suggest / --hover / --define on an example program with the
// requested row a solver variable over [0, lines+2].
func VerifCorpusModes(n int) {
	src, _ := verifCorpusPick()
	verifRunModes(src)
}

// VerifCorpusPrefix (C01 / C02): every line-prefix of an example program, with and without
// the final newline, with and without -i: no crash, no hang, only diagnostic / hint lines.
func VerifCorpusPrefix(n int) {
	src, _ := verifCorpusPick()
	lines := verifLinesOf(src)
	k := verifapi.Concrete(verifapi.Int("lines", 1, len(lines)))
	text := strings.Join(lines[:k], "\n")
	if verifapi.Concrete(verifapi.Int("nl", 0, 1)) == 1 {
		text += "\n"
	}
	verifRunFrags(text)
}
