package base

import "ti/verifapi"

// VerifSymScalar returns a T whose kind is a solver variable over the plain value kinds.
func VerifSymScalar(name string) *T {
	k := verifapi.Int(name, 0, 300)
	verifapi.Assume(k == NIL || k == INT || k == STRING || k == BOOL || k == FLOAT || k == SYMBOL)
	return &T{tType: k, objectClass: "K", val: "k"}
}

// VerifSymValue returns a value T of symbolic kind with the matching class name.
func VerifSymValue(name string) *T {
	k := verifapi.Int(name, 0, 5)
	return &T{
		tType:       verifapi.PickInt(k, NIL, INT, STRING, BOOL, FLOAT, SYMBOL),
		objectClass: verifapi.Pick(k, "NilClass", "Integer", "String", "Bool", "Float", "Symbol"),
		val:         "sym",
	}
}

// VerifSymUnion returns a scalar (n==1) or a union of n variants, 1<=n<=max.
func VerifSymUnion(name string, max int) *T {
	n := verifapi.Int(name+"n", 1, max)
	var vs []T
	for i := 0; i < n; i++ {
		vs = append(vs, *VerifSymScalar(name + "k"))
	}
	if len(vs) == 1 {
		return &vs[0]
	}
	return MakeUnion(vs)
}

func VerifKinds(t *T) []int {
	if t.tType == UNION {
		return t.GetVariantTypes()
	}
	return []int{t.tType}
}
