package base

import "ti/verifapi"

// Kind table for symbolic values. Index -> (tType, class name).
//   0 NilClass 1 Integer 2 String 3 Bool 4 Float 5 Symbol 6 Array 7 Hash 8 Range
//   9 object VA 10 object VB 11 untyped 12 unknown (identifier) 13 block
const (
	VkNil = iota
	VkInt
	VkString
	VkBool
	VkFloat
	VkSymbol
	VkArray
	VkHash
	VkRange
	VkObjA
	VkObjB
	VkUntyped
	VkUnknown
	VkBlock
	VkCount
)

var verifKindNames = []string{"NilClass", "Integer", "String", "Bool", "Float", "Symbol", "Array", "Hash", "Range", "VA", "VB", "Untyped", "Unknown", "Block"}
var verifKindVals = []string{"nil", "1", "String", "bool", "1.0", "symbol", "array", "hash", "range", "VA", "VB", "untyped", "unknown", "block"}

// VerifKindT builds the T the factories (Make*) produce for a kind index; k may be symbolic.
func VerifKindT(k int) *T {
	return &T{
		tType:       verifapi.PickInt(k, NIL, INT, STRING, BOOL, FLOAT, SYMBOL, ARRAY, HASH, RANGE, OBJECT, OBJECT, UNTYPED, UNKNOWN, BLOCK),
		objectClass: verifapi.Pick(k, verifKindNames...),
		val:         verifapi.Pick(k, verifKindVals...),
	}
}

// VerifSymKind returns a fresh kind index in [0,hi].
func VerifSymKind(name string, hi int) int { return verifapi.Int(name, 0, hi) }

// VerifSymT returns a scalar (n==1) or a union of n variants with kind indices in [0,hi];
// also returns the kind indices.
func VerifSymT(name string, maxVariants, hi int) (*T, []int) {
	n := verifapi.Int(name+"n", 1, maxVariants)
	var vs []T
	var ks []int
	for i := 0; i < n; i++ {
		k := VerifSymKind(name+"k", hi)
		ks = append(ks, k)
		vs = append(vs, *VerifKindT(k))
	}
	if len(vs) == 1 {
		return &vs[0], ks
	}
	return MakeUnion(vs), ks
}

// VerifSymValue: a value T of symbolic plain kind (0..5), as literals and builtin returns have.
func VerifSymValue(name string) *T {
	return VerifKindT(verifapi.Int(name, 0, 5))
}

func VerifKinds(t *T) []int {
	if t.tType == UNION {
		return t.GetVariantTypes()
	}
	return []int{t.tType}
}

func VerifShape(ks []int) string {
	switch len(ks) {
	case 1:
		return "scalar"
	case 2:
		return "union2"
	case 3:
		return "union3"
	}
	return "unionN"
}

func VerifKindName(k int) string { return verifapi.Pick(k, verifKindNames...) }

func VerifKindList(ks []int) string {
	s := ""
	for i, k := range ks {
		if i > 0 {
			s += "|"
		}
		s += VerifKindName(k)
	}
	return s
}

func VerifKindNames(ks []int) []string {
	var out []string
	for _, k := range ks {
		out = append(out, VerifKindName(k))
	}
	return out
}

func verifSigEq(a, b Sig) bool {
	return a.Method == b.Method && a.Class == b.Class && a.Frame == b.Frame && a.IsStatic == b.IsStatic && a.Detail == b.Detail
}

// VerifSortedSigs: C05 kernel. TSignatures holds n entries whose Method / Class / Frame /
// IsStatic / Detail are solver variables over two-element domains (pairwise distinct, as the
// key construction in appendSignature guarantees); the iteration order of the map is a
// schedule variable at every range statement. The sorted listing produced under two
// independently chosen iteration orders must be identical. which: 0 GetSortedTSignatures,
// 1 GetSortedTSignaturesByClass.
func VerifSortedSigs(n int) {
	which := verifapi.Concrete(verifapi.Int("which", 0, 1))
	TSignatures = map[string]Sig{}
	var sigs []Sig
	keys := []string{"k0", "k1", "k2", "k3"}
	for i := 0; i < n; i++ {
		s := Sig{
			Method:   verifapi.Pick(verifapi.Int("method", 0, 1), "ma", "mb"),
			Class:    verifapi.Pick(verifapi.Int("class", 0, 1), "Ka", "Kb"),
			Frame:    verifapi.Pick(verifapi.Int("frame", 0, 1), "", "Fr"),
			IsStatic: verifapi.Bool("static"),
			Detail:   verifapi.Pick(verifapi.Int("detail", 0, 1), "d1", "d2"),
		}
		for _, o := range sigs {
			verifapi.Assume(!verifSigEq(s, o))
		}
		sigs = append(sigs, s)
		TSignatures[keys[i]] = s
	}
	verifapi.AnyOrder(TSignatures)
	var a, b []Sig
	if which == 0 {
		a, b = GetSortedTSignatures(), GetSortedTSignatures()
	} else {
		a, b = GetSortedTSignaturesByClass(), GetSortedTSignaturesByClass()
	}
	verifapi.Reach("sorted")
	same := len(a) == len(b)
	for i := range a {
		if i < len(b) && !verifSigEq(a[i], b[i]) {
			same = false
		}
	}
	// what ties: entries equal in the sort key but different in what is printed
	tie := "entries-differ-only-in-IsStatic-or-Detail"
	verifapi.Classify("C05/sorted-listing-depends-on-map-iteration-order/" + []string{"GetSortedTSignatures", "GetSortedTSignaturesByClass"}[which] + "/" + tie)
	verifapi.Assert(same, "C05-sorted")
}

// VerifObjKindT: i in 0..2 -> NilClass, an instance of user class VA, an instance of VB.
func VerifObjKindT(i int) *T {
	return &T{
		tType:       verifapi.PickInt(i, NIL, OBJECT, OBJECT),
		objectClass: verifapi.Pick(i, "NilClass", "Va", "Vb"),
		val:         verifapi.Pick(i, "nil", "Va", "Vb"),
	}
}
