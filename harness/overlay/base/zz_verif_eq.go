package base

// VerifEqualT compares two T values field by field (everything the loader can set).
func VerifEqualT(a, b *T) bool {
	if a == nil || b == nil {
		return a == b
	}
	if a.tType != b.tType || a.objectClass != b.objectClass || a.key != b.key || a.frame != b.frame ||
		a.method != b.method || a.hasDefault != b.hasDefault || a.isBuiltin != b.isBuiltin ||
		a.IsBuiltinAsterisk != b.IsBuiltinAsterisk || a.IsConditionalReturn != b.IsConditionalReturn ||
		a.IsDestructive != b.IsDestructive || a.isReadOnly != b.isReadOnly || a.IsBlockGiven != b.IsBlockGiven {
		return false
	}
	av, aok := a.val.(*T)
	bv, bok := b.val.(*T)
	if aok != bok {
		return false
	}
	if aok {
		if !VerifEqualT(av, bv) {
			return false
		}
	} else if a.val != b.val {
		return false
	}
	if len(a.variants) != len(b.variants) {
		return false
	}
	for i := range a.variants {
		if !VerifEqualT(&a.variants[i], &b.variants[i]) {
			return false
		}
	}
	return true
}

type VerifSnap struct {
	keys []FrameKey
	vals []*T
}

func verifIsBuiltinFrame(f string) bool {
	return f == "Builtin" || (len(f) > 9 && f[:9] == "Builtin::")
}

// VerifBuiltinSnapshot deep-copies every Builtin-frame method entry of TFrame except those of
// the verification-only class Sym.
func VerifBuiltinSnapshot() *VerifSnap {
	s := &VerifSnap{}
	for k, v := range TFrame {
		if verifIsBuiltinFrame(k.frame) && k.targetClass != "Sym" && k.targetVariable == "" {
			s.keys = append(s.keys, k)
			c := v.DeepCopy()
			c.Overloads = append([]T(nil), v.Overloads...)
			s.vals = append(s.vals, c)
		}
	}
	return s
}

// VerifBuiltinUnchanged reports whether every snapshotted entry is still present with the
// same arguments, return type, flags, variants and overloads.
func VerifBuiltinUnchanged(s *VerifSnap) bool {
	for i, k := range s.keys {
		cur, ok := TFrame[k]
		if !ok || !VerifEqualT(cur, s.vals[i]) {
			return false
		}
		if len(cur.defineArgs) != len(s.vals[i].defineArgs) || len(cur.Overloads) != len(s.vals[i].Overloads) {
			return false
		}
		for j := range cur.Overloads {
			if !VerifEqualT(&cur.Overloads[j], &s.vals[i].Overloads[j]) {
				return false
			}
		}
	}
	return true
}
