package base

// VerifEqualT compares two T values field by field (everything the loader can set).
func VerifEqualT(a, b *T) bool {
	if a == nil || b == nil {
		return a == b
	}
	if a.tType != b.tType || a.objectClass != b.objectClass || a.key != b.key || a.frame != b.frame ||
		a.method != b.method || a.hasDefault != b.hasDefault || a.isBuiltin != b.isBuiltin ||
		a.IsBuiltinAsterisk != b.IsBuiltinAsterisk || a.IsConditionalReturn != b.IsConditionalReturn ||
		a.IsDestructive != b.IsDestructive || a.isReadOnly != b.isReadOnly || a.IsBlockGiven != b.IsBlockGiven {
		return false
	}
	av, aok := a.val.(*T)
	bv, bok := b.val.(*T)
	if aok != bok {
		return false
	}
	if aok {
		if !VerifEqualT(av, bv) {
			return false
		}
	} else if a.val != b.val {
		return false
	}
	if len(a.variants) != len(b.variants) {
		return false
	}
	for i := range a.variants {
		if !VerifEqualT(&a.variants[i], &b.variants[i]) {
			return false
		}
	}
	return true
}
