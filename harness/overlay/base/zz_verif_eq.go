package base

// VerifEqualT compares two T values field by field (everything the loader can set).
func VerifEqualT(a, b *T) bool {
	if a == nil || b == nil {
		return a == b
	}
	if a.tType != b.tType || a.objectClass != b.objectClass || a.key != b.key || a.frame != b.frame ||
		a.method != b.method || a.hasDefault != b.hasDefault || a.isBuiltin != b.isBuiltin ||
		a.IsBuiltinAsterisk != b.IsBuiltinAsterisk || a.IsConditionalReturn != b.IsConditionalReturn ||
		a.IsDestructive != b.IsDestructive || a.isReadOnly != b.isReadOnly || a.IsBlockGiven != b.IsBlockGiven ||
		a.IsProtected != b.IsProtected || a.IsStatic != b.IsStatic || a.DefinedFrame != b.DefinedFrame ||
		a.DefinedClass != b.DefinedClass || a.DefinedMethod != b.DefinedMethod || a.IsCaptureOwner != b.IsCaptureOwner ||
		a.IsExtend != b.IsExtend || a.IsInclude != b.IsInclude {
		return false
	}
	if len(a.blockParamaters) != len(b.blockParamaters) || len(a.defineArgs) != len(b.defineArgs) {
		return false
	}
	for i := range a.blockParamaters {
		if !VerifEqualT(&a.blockParamaters[i], &b.blockParamaters[i]) {
			return false
		}
	}
	for i := range a.defineArgs {
		if a.defineArgs[i] != b.defineArgs[i] {
			return false
		}
	}
	av, aok := a.val.(*T)
	bv, bok := b.val.(*T)
	if aok != bok {
		return false
	}
	if aok {
		if !VerifEqualT(av, bv) {
			return false
		}
	} else if a.val != b.val {
		return false
	}
	if len(a.variants) != len(b.variants) {
		return false
	}
	for i := range a.variants {
		if !VerifEqualT(&a.variants[i], &b.variants[i]) {
			return false
		}
	}
	return true
}

type VerifSnap struct {
	keys []FrameKey
	vals []*T
}

func verifIsBuiltinFrame(f string) bool {
	return f == "Builtin" || (len(f) > 9 && f[:9] == "Builtin::")
}

// VerifBuiltinSnapshot deep-copies every Builtin-frame method entry of TFrame except those of
// the verification-only class Sym.
func VerifBuiltinSnapshot() *VerifSnap {
	s := &VerifSnap{}
	for k, v := range TFrame {
		// every entry the configuration loader created: methods and their parameter values, of
		// every configured frame (at snapshot time the table holds nothing else)
		if k.targetClass != "Sym" {
			s.keys = append(s.keys, k)
			c := v.DeepCopy()
			c.Overloads = append([]T(nil), v.Overloads...)
			s.vals = append(s.vals, c)
		}
	}
	return s
}

// VerifBuiltinUnchanged reports whether every snapshotted entry is still present with the
// same arguments, return type, flags, variants and overloads.
func VerifBuiltinUnchanged(s *VerifSnap) bool {
	for i, k := range s.keys {
		cur, ok := TFrame[k]
		if !ok || !VerifEqualT(cur, s.vals[i]) {
			return false
		}
		if len(cur.defineArgs) != len(s.vals[i].defineArgs) || len(cur.Overloads) != len(s.vals[i].Overloads) {
			return false
		}
		for j := range cur.Overloads {
			if !VerifEqualT(&cur.Overloads[j], &s.vals[i].Overloads[j]) {
				return false
			}
		}
	}
	return true
}

// VerifDiffT names the first field in which two T values differ ("" if none).
func VerifDiffT(a, b *T) string {
	switch {
	case a == nil || b == nil:
		if a == b {
			return ""
		}
		return "nil"
	case a.tType != b.tType:
		return "tType"
	case a.objectClass != b.objectClass:
		return "objectClass"
	case a.key != b.key:
		return "key"
	case a.frame != b.frame:
		return "frame"
	case a.method != b.method:
		return "method"
	case a.hasDefault != b.hasDefault:
		return "hasDefault"
	case a.isBuiltin != b.isBuiltin:
		return "isBuiltin"
	case a.IsBuiltinAsterisk != b.IsBuiltinAsterisk:
		return "IsBuiltinAsterisk"
	case a.IsConditionalReturn != b.IsConditionalReturn:
		return "IsConditionalReturn"
	case a.IsDestructive != b.IsDestructive:
		return "IsDestructive"
	case a.isReadOnly != b.isReadOnly:
		return "isReadOnly"
	case a.IsBlockGiven != b.IsBlockGiven:
		return "IsBlockGiven"
	case a.IsProtected != b.IsProtected:
		return "IsProtected"
	case a.IsStatic != b.IsStatic:
		return "IsStatic"
	case a.DefinedFrame != b.DefinedFrame:
		return "DefinedFrame"
	case a.DefinedClass != b.DefinedClass:
		return "DefinedClass"
	case a.DefinedMethod != b.DefinedMethod:
		return "DefinedMethod"
	case a.IsCaptureOwner != b.IsCaptureOwner:
		return "IsCaptureOwner"
	case a.IsExtend != b.IsExtend:
		return "IsExtend"
	case a.IsInclude != b.IsInclude:
		return "IsInclude"
	case len(a.blockParamaters) != len(b.blockParamaters):
		return "blockParamaters"
	case len(a.defineArgs) != len(b.defineArgs):
		return "defineArgs"
	case len(a.variants) != len(b.variants):
		return "variants"
	}
	if !VerifEqualT(a, b) {
		return "nested"
	}
	return ""
}

// VerifBuiltinDiff names the first snapshotted builtin method entry that changed and the
// field that differs: "Class.method/field" ("" when the table is unchanged).
func VerifBuiltinDiff(s *VerifSnap) string {
	best := ""
	note := func(d string) {
		if best == "" || d < best {
			best = d
		}
	}
	for i, k := range s.keys {
		name := k.targetClass + "." + k.targetMethod
		if k.targetVariable != "" {
			name += "/parameter"
		}
		cur, ok := TFrame[k]
		if !ok {
			note(name + "/removed")
			continue
		}
		if d := VerifDiffT(cur, s.vals[i]); d != "" {
			note(name + "/" + d)
			continue
		}
		if len(cur.Overloads) != len(s.vals[i].Overloads) {
			note(name + "/Overloads")
			continue
		}
		for j := range cur.Overloads {
			if d := VerifDiffT(&cur.Overloads[j], &s.vals[i].Overloads[j]); d != "" {
				note(name + "/overload-" + d)
				break
			}
		}
	}
	return best
}
