package method_evaluator

import (
	"strings"
	"ti/base"
	"ti/builtin"
	"ti/context"
	"ti/verifapi"
)

func verifItoa(i int) string { return verifapi.Pick(i, "0", "1", "2", "3", "4", "5", "6", "7", "8", "9") }

// VerifCallArgs: C07/C08 kernel on checkAndPropagateArgs. A configured instance method with a
// symbolic signature shape - r required, o defaulted, optional *rest, p trailing positionals,
// up to 2 keywords (required or defaulted), every declared kind Integer or String - is called
// in the check round with <= n positional arguments of kinds Integer/String/NilClass plus a
// solver-chosen subset of the declared keywords and optionally one undeclared keyword.
// Reference: Ruby's binding rule (required first, trailing last, optionals left to right,
// the remainder to *rest). Elements bound to *rest carry no type claim.
func VerifCallArgs(n int) {
	r := verifapi.Concrete(verifapi.Int("r", 0, 2))
	o := verifapi.Concrete(verifapi.Int("o", 0, 1))
	rest := verifapi.Concrete(verifapi.Int("rest", 0, 1))
	p := verifapi.Concrete(verifapi.Int("p", 0, 1))
	kw := verifapi.Concrete(verifapi.Int("kw", 0, 2))
	// keyword names: plain; one a prefix of the other followed by a digit (both declaration
	// orders); one a proper prefix of the other. The extra sets are only combined with the
	// shapes without optional / rest parameters (where the pinned tree has no known finding).
	ns := verifapi.Concrete(verifapi.Int("kwnames", 0, 3))
	verifapi.Assume(ns == 0 || (kw == 2 && o == 0 && rest == 0))
	kwNames := [][]string{{"ka:", "kb:"}, {"x:", "x2:"}, {"x2:", "x:"}, {"pin:", "pi:"}}[ns]

	var decl []base.T
	var reqK, optK, trailK []int
	for i := 0; i < r; i++ {
		k := verifapi.Int("pk", base.VkInt, base.VkString)
		reqK = append(reqK, k)
		decl = append(decl, builtin.VerifArg(*base.VerifKindT(k), "", false, false))
	}
	for i := 0; i < o; i++ {
		k := verifapi.Int("pk", base.VkInt, base.VkString)
		optK = append(optK, k)
		decl = append(decl, builtin.VerifArg(*base.VerifKindT(k), "", true, false))
	}
	if rest == 1 {
		decl = append(decl, builtin.VerifArg(*base.VerifKindT(base.VkInt), "", false, true))
	}
	for i := 0; i < p; i++ {
		k := verifapi.Int("pk", base.VkInt, base.VkString)
		trailK = append(trailK, k)
		decl = append(decl, builtin.VerifArg(*base.VerifKindT(k), "", false, false))
	}
	var kwK []int
	var kwDef []bool
	for i := 0; i < kw; i++ {
		k := verifapi.Int("kk", base.VkInt, base.VkString)
		d := verifapi.Bool("kdef")
		kwK = append(kwK, k)
		kwDef = append(kwDef, d)
		decl = append(decl, builtin.VerifArg(*base.VerifKindT(k), kwNames[i], d, false))
	}
	methodT := builtin.VerifDefineInstance("VC", "m", decl, *base.MakeNil())
	methodT.SetBeforeEvaluateCode("VC.m")

	// the call
	np := verifapi.Concrete(verifapi.Int("npos", 0, n))
	var args []*base.T
	var posK []int
	for i := 0; i < np; i++ {
		k := verifapi.Int("ak", base.VkNil, base.VkString)
		posK = append(posK, k)
		args = append(args, base.VerifKindT(k))
	}
	var kwGiven []bool
	var kwArgK []int
	for i := 0; i < kw; i++ {
		g := verifapi.Bool("kgiven")
		kwGiven = append(kwGiven, g)
		k := verifapi.Int("kak", base.VkNil, base.VkString)
		kwArgK = append(kwArgK, k)
		if g {
			args = append(args, base.MakeKeyValue(kwNames[i], base.VerifKindT(k)))
		}
	}
	unknownKw := verifapi.Bool("unknownkw")
	if unknownKw {
		args = append(args, base.MakeKeyValue("zz:", base.VerifKindT(base.VkInt)))
	}
	shape := "r" + verifItoa(r) + "-o" + verifItoa(o) + "-rest" + verifItoa(rest) + "-p" + verifItoa(p) + "-kw" + verifItoa(kw) + "/npos" + verifItoa(np)
	if ns > 0 {
		shape += "/keywords-" + strings.ReplaceAll(kwNames[0]+kwNames[1], ":", "-")
	}
	verifapi.WitnessList("required", base.VerifKindNames(reqK)...)
	verifapi.WitnessList("optional", base.VerifKindNames(optK)...)
	verifapi.WitnessList("trailing", base.VerifKindNames(trailK)...)
	verifapi.WitnessList("keywords", base.VerifKindNames(kwK)...)
	verifapi.WitnessList("positional-args", base.VerifKindNames(posK)...)
	verifapi.WitnessList("keyword-arg-values", base.VerifKindNames(kwArgK)...)
	verifapi.Witness("shape", shape)

	m := &MethodEvaluator{method: "m", ctx: context.NewContext("", "", "check"), evaluatedObjectT: base.MakeObject("VC")}
	err := checkAndPropagateArgs(m, "VC", methodT, args)
	verifapi.Reach("called")

	// ---- reference ----
	reason := ""
	min := r + p
	if np < min {
		reason = "too-few-positionals"
	} else if rest == 0 && np > r+o+p {
		reason = "too-many-positionals"
	}
	if reason == "" {
		for i := 0; i < kw; i++ {
			if !kwDef[i] && !kwGiven[i] {
				reason = "required-keyword-missing"
			}
		}
	}
	if unknownKw {
		// Whether an undeclared keyword is an error depends on how Ruby folds it into a
		// positional hash; the property statement makes no claim. Only crash-freedom is
		// checked for these calls.
		return
	}
	if reason == "" {
		for i := 0; i < r; i++ {
			if posK[i] != reqK[i] {
				reason = "required-positional-type"
			}
		}
		avail := np - r - p
		for i := 0; i < o && i < avail; i++ {
			if posK[r+i] != optK[i] {
				reason = "optional-positional-type"
			}
		}
		for i := 0; i < p; i++ {
			if posK[np-p+i] != trailK[i] {
				reason = "trailing-positional-type"
			}
		}
		for i := 0; i < kw; i++ {
			if kwGiven[i] && kwArgK[i] != kwK[i] {
				reason = "keyword-type"
			}
		}
	}
	if reason != "" {
		verifapi.Classify("C07/call-certainly-fails-but-accepted/" + reason + "/" + shape)
		verifapi.Assert(err != nil, "C07-args-misuse-accepted")
	} else {
		verifapi.Classify("C08/call-certainly-fits-but-rejected/" + shape)
		verifapi.Assert(err == nil, "C08-args-fit-rejected")
	}
}

// VerifArityAccepted declares a configured method with the given parameters and calls it in
// the check round with npos Integer positionals and the given keywords (Integer values).
func VerifArityAccepted(decl []base.T, npos int, keywords []string) bool {
	methodT := builtin.VerifDefineInstance("VR", "m", decl, *base.MakeNil())
	methodT.SetBeforeEvaluateCode("VR.m")
	var args []*base.T
	for i := 0; i < npos; i++ {
		args = append(args, base.MakeAnyInt())
	}
	for _, k := range keywords {
		args = append(args, base.MakeKeyValue(k, base.MakeAnyInt()))
	}
	m := &MethodEvaluator{method: "m", ctx: context.NewContext("", "", "check"), evaluatedObjectT: base.MakeObject("VR")}
	return checkAndPropagateArgs(m, "VR", methodT, args) == nil
}
