package method_evaluator

import (
	"ti/base"
	"ti/verifapi"
)

func verifIn(k int, ks []int) bool {
	for _, x := range ks {
		if x == k {
			return true
		}
	}
	return false
}

func VerifCheckArgType(n int) {
	def := base.VerifSymUnion("d", 3)
	arg := base.VerifSymUnion("a", 2)
	m := &MethodEvaluator{method: "m"}
	err := checkArgType(m, "C", def, arg)

	dk, ak := base.VerifKinds(def), base.VerifKinds(arg)
	all, none := true, true
	for _, k := range ak {
		if verifIn(k, dk) {
			none = false
		} else {
			all = false
		}
	}
	verifapi.Reach("checked")
	if all {
		verifapi.Assert(err == nil, "C08-fits-but-rejected")
	}
	if none {
		verifapi.Assert(err != nil, "C07-misfit-but-accepted")
	}
}
