package method_evaluator

import (
	"ti/base"
	"ti/verifapi"
)

func verifIn(k int, ks []int) bool {
	for _, x := range ks {
		if x == k {
			return true
		}
	}
	return false
}

// verifAccepts: reference for "the declared parameter (kind set dk) accepts class c".
func verifAccepts(dk []int, c int) bool {
	return verifIn(c, dk) || verifIn(base.VkUntyped, dk)
}

func verifFree(ks []int) bool {
	return verifIn(base.VkUntyped, ks) || verifIn(base.VkUnknown, ks) || verifIn(base.VkBlock, ks)
}

// VerifCheckArgType: C07/C08 kernel. Parameter: scalar or union of <= 3 kinds out of the 11
// value kinds + untyped; argument: scalar or union of <= n kinds out of those + unknown + block.
// Reference (from the property statement): certainly fits = every possible class of the
// argument is accepted; certainly fails = every possible class is rejected.
func VerifCheckArgType(n int) {
	def, dk := base.VerifSymT("d", 3, base.VkUntyped)
	arg, ak := base.VerifSymT("a", n, base.VkBlock)
	verifapi.Witness("param", base.VerifKindList(dk))
	verifapi.Witness("arg", base.VerifKindList(ak))
	m := &MethodEvaluator{method: "m"}
	err := checkArgType(m, "C", def, arg)
	verifapi.Reach("checked")
	if verifFree(ak) {
		// untyped / unknown / block arguments: no possible-class claim
		return
	}
	all, none := true, true
	for _, k := range ak {
		if verifAccepts(dk, k) {
			none = false
		} else {
			all = false
		}
	}
	shape := "arg=" + base.VerifShape(ak) + "/param=" + base.VerifShape(dk)
	if all {
		rel := "same-kind-set"
		for _, k := range dk {
			if !verifIn(k, ak) {
				rel = "arg-strict-subset-of-param"
			}
		}
		if verifIn(base.VkUntyped, dk) {
			rel = "param-contains-untyped"
		}
		cls := "C08/fits-but-rejected/" + shape + "/" + rel
		if len(ak) > 1 && len(dk) > 1 && rel == "arg-strict-subset-of-param" {
			cls = "C08/fits-but-rejected/union-arg-strict-subset-of-union-param"
		}
		verifapi.Classify(cls)
		verifapi.Assert(err == nil, "C08-fits-but-rejected")
	}
	if none {
		cls := "C07/misfit-but-accepted/" + shape + "/plain"
		argObj := verifIn(base.VkObjA, ak) || verifIn(base.VkObjB, ak)
		defObj := verifIn(base.VkObjA, dk) || verifIn(base.VkObjB, dk)
		if argObj && defObj && (len(ak) > 1 || len(dk) > 1) {
			cls = "C07/misfit-but-accepted/object-of-another-class-inside-union"
		}
		verifapi.Classify(cls)
		verifapi.Assert(err != nil, "C07-misfit-but-accepted")
	}
}
