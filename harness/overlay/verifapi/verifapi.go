// Package verifapi is the harness API. This file is what the symbolic executor sees (the
// engine intercepts every call); harness/native/verifapi.go is the native twin used to
// replay solver models against the natively compiled real code.
package verifapi

func Rune(name string) rune           { return 0 }
func Int(name string, lo, hi int) int { return lo }
func Bool(name string) bool           { return false }
func Assume(c bool)                   {}
func Assert(c bool, id string)        {}
func Reach(id string)                 {}

func Source() string   { return "" }
func FileName() string { return "" }

func Pick(k int, alts ...string) string { return alts[k] }
func PickInt(k int, vals ...int) int    { return vals[k] }

func Concrete(v int) int { return v }
func StubLexer()         {}
func Stubbed() bool      { return false }

func AnyOrder(m any) {}

func Snapshot() int           { return 0 }
func Restore(mark int)        {}
func TakeStdout() string      { return "" }
func CatchExit(f func()) bool { f(); return false }

func Classify(class string)          {}
func Witness(name string, v string)  {}
func WitnessInt(name string, v int)  {}
func Twin() bool                     { return false }
func SetFile(path string, content string) {}

func WitnessList(name string, parts ...string) {}
func VfsOnly(prefix string) {}
func FlipOrder(m any) {}

// FlipAllMaps: from here on every range statement of the output printers (package ti/cmd) over
// a map with more than one entry (local maps included) iterates forward or backward, one
// schedule variable per executed range statement.
func FlipAllMaps() {}
func Thorough() bool { return false }

// Corpus access: the example programs of /repo/test selected for this run (quick: a seeded
// sample, thorough: all).
func CorpusCount() int          { return 0 }
func CorpusSource(i int) string { return "" }
func CorpusName(i int) string   { return "" }
