package parser

import (
	"ti/base"
	"ti/lexer"
	"ti/lexer/reader"
	"ti/verifapi"
)

func verifKnownKind(k int) bool {
	switch k {
	case base.INT, base.FLOAT, base.STRING, base.NIL, base.UNKNOWN, base.BOOL, base.CLASS, base.CONST, base.SYMBOL:
		return true
	}
	return false
}

// VerifReadAll: C03(b). n symbolic ASCII runes through reader, lexer and parser.Read.
//   no-read-error - Read never reports `read error`
//   t-kind        - every T built from the stream has a documented kind
//   t-count       - at most n tokens
func VerifReadAll(n int) {
	runes := make([]rune, n)
	for i := range runes {
		r := verifapi.Rune("r")
		verifapi.Assume(r < 0x80)
		runes[i] = r
	}
	verifapi.Witness("src", string(runes))
	p := New(lexer.New(reader.VerifNew(runes)), "a.rb")
	count := 0
	for {
		t, err := p.Read()
		verifapi.Classify("read-error/token=" + string(lexer.VerifCurTok(&p.Lexer)))
		verifapi.Assert(err == nil, "no-read-error")
		if err != nil || t == nil {
			break
		}
		count++
		verifapi.Classify("t-count/more-tokens-than-runes")
		verifapi.Assert(count <= n, "t-count")
		verifapi.Classify("t-kind/undocumented-kind")
		verifapi.Assert(verifKnownKind(t.GetType()), "t-kind")
	}
	verifapi.Reach("eos")
}

type verifTokRec struct {
	kind  int
	text  string
	space bool
	row   int
}

func verifTokens(src []rune) ([]verifTokRec, bool) {
	p := New(lexer.New(reader.VerifNew(src)), "a.rb")
	var out []verifTokRec
	for i := 0; i < 64; i++ {
		t, err := p.Read()
		if err != nil {
			return out, false
		}
		if t == nil {
			return out, true
		}
		out = append(out, verifTokRec{t.GetType(), t.ToString(), t.IsBeforeSpace, p.ErrorRow})
	}
	return out, false
}

// VerifCommentLine: C06(b). For every comment body of exactly n arbitrary runes (no newline,
// no NUL; the first one not '{', which would start an interpolation token), optionally
// indented, the token stream of  A \n #BODY \n B  equals the token stream of  A \n \n B
// (kinds, texts, space flags and rows): a comment-only line is a blank line.
func VerifCommentLine(n int) {
	indent := verifapi.Concrete(verifapi.Int("indent", 0, 1))
	body := make([]rune, n)
	for i := range body {
		r := verifapi.Rune("c")
		verifapi.Assume(r != '\n' && r != 0)
		if i == 0 {
			verifapi.Assume(r != '{')
		}
		body[i] = r
	}
	head := []rune("x = 1\n")
	tail := []rune("\ny . foo\nz\n")
	var withComment []rune
	withComment = append(withComment, head...)
	if indent == 1 {
		withComment = append(withComment, ' ', ' ')
	}
	withComment = append(withComment, '#')
	withComment = append(withComment, body...)
	withComment = append(withComment, tail...)
	var blank []rune
	blank = append(blank, head...)
	blank = append(blank, tail...)
	verifapi.Witness("src", string(withComment))
	a, okA := verifTokens(withComment)
	b, okB := verifTokens(blank)
	verifapi.Reach("lexed")
	verifapi.Classify("C06/comment-line-is-not-equivalent-to-a-blank-line/token-stream-differs")
	verifapi.Assert(okA && okB && len(a) == len(b), "C06-comment-tokens")
	if len(a) != len(b) {
		return
	}
	for i := range a {
		verifapi.Classify("C06/comment-line-is-not-equivalent-to-a-blank-line/token-or-row-differs")
		verifapi.Assert(a[i].kind == b[i].kind && a[i].text == b[i].text && a[i].row == b[i].row, "C06-comment-tokens")
	}
}
