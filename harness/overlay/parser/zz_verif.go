package parser

import (
	"ti/base"
	"ti/lexer"
	"ti/lexer/reader"
	"ti/verifapi"
)

func verifKnownKind(k int) bool {
	switch k {
	case base.INT, base.FLOAT, base.STRING, base.NIL, base.UNKNOWN, base.BOOL, base.CLASS, base.CONST, base.SYMBOL:
		return true
	}
	return false
}

// VerifReadAll: C03(b). n symbolic ASCII runes through reader, lexer and parser.Read.
//   no-read-error - Read never reports `read error`
//   t-kind        - every T built from the stream has a documented kind
//   t-count       - at most n tokens
func VerifReadAll(n int) {
	runes := make([]rune, n)
	for i := range runes {
		r := verifapi.Rune("r")
		verifapi.Assume(r < 0x80)
		runes[i] = r
	}
	verifapi.Witness("src", string(runes))
	p := New(lexer.New(reader.VerifNew(runes)), "a.rb")
	count := 0
	for {
		t, err := p.Read()
		verifapi.Classify("read-error/token=" + string(lexer.VerifCurTok(&p.Lexer)))
		verifapi.Assert(err == nil, "no-read-error")
		if err != nil || t == nil {
			break
		}
		count++
		verifapi.Classify("t-count/more-tokens-than-runes")
		verifapi.Assert(count <= n, "t-count")
		verifapi.Classify("t-kind/undocumented-kind")
		verifapi.Assert(verifKnownKind(t.GetType()), "t-kind")
	}
	verifapi.Reach("eos")
}
