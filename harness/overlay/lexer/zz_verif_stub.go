package lexer

import (
	"ti/base"
	"ti/verifapi"
)

type VerifTok struct {
	Tok   rune
	Val   any
	Space bool
}

var VerifToks []VerifTok
var VerifPos int

// verifAdvance replaces Advance when the lexer stub is enabled: it serves VerifToks.
func (l *Lexer) verifAdvance() bool {
	if VerifPos >= len(VerifToks) {
		return false
	}
	t := VerifToks[VerifPos]
	VerifPos++
	l.tok = t.Tok
	l.val = t.Val
	if t.Space {
		l.IsSpace = true
	}
	return true
}

var verifNames = []string{
	"def", "end", "class", "module", "if", "unless", "elsif", "else", "case", "when", "in",
	"while", "until", "for", "do", "begin", "rescue", "return", "self", "private", "protected",
	"public", "yield", "then", "break", "and", "or", "not",
	"=", "==", "!=", "=>", "<", ">", "<=", "<<", "+", "-", "*", "/", "%", "**", "&", "|", "&&", "||",
	"!", "?", ":", "::", "..", "...", "&.", "->", "+=", "||=", "<=>", "#{", "=begin",
	"x", "y", "@a", "$g", "Foo", "FOO", "foo:", ":sym", "*s", "**k", "&b", "A::B", "<<EOS",
	"dbtp", "p", "attr_reader", "attr_accessor", "include", "extend", "raise", "new", "each",
	"push", "replace", "merge", "nil?", "is_a?", "true", "false", "Integer", "String", "Array",
}

func VerifNumNames() int { return len(verifNames) }

func VerifSymTok() VerifTok {
	sp := verifapi.Bool("sp")
	cls := verifapi.Int("cls", 0, 5)
	switch cls {
	case 0:
		k := verifapi.Int("id", 0, len(verifNames)-1)
		return VerifTok{Tok: base.UNKNOWN, Val: Identifier{name: verifapi.Pick(k, verifNames...)}, Space: sp}
	case 1:
		k := verifapi.Int("pu", 0, 11)
		c := verifapi.Concrete(verifapi.PickInt(k, '\n', '(', ')', '`', ',', '{', '}', '[', ']', '^', ';', '.'))
		return VerifTok{Tok: rune(c), Space: sp}
	case 2:
		return VerifTok{Tok: base.INT, Val: int64(1), Space: sp}
	case 3:
		return VerifTok{Tok: base.STRING, Val: "s", Space: sp}
	case 4:
		return VerifTok{Tok: base.FLOAT, Val: float64(1.5), Space: sp}
	default:
		return VerifTok{Tok: base.NIL, Val: Identifier{name: "nil"}, Space: sp}
	}
}

func VerifIdent(name string, sp bool) VerifTok {
	return VerifTok{Tok: base.UNKNOWN, Val: Identifier{name: name}, Space: sp}
}
