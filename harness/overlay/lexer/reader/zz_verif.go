package reader

func VerifNew(runes []rune) LexerReader {
	return LexerReader{runes: runes}
}

// VerifAtEOF reports whether every rune has been consumed.
func (lr *LexerReader) VerifAtEOF() bool {
	return lr.pos >= len(lr.runes) && len(lr.history) == 0
}

func (lr *LexerReader) VerifPos() int { return lr.pos }

// VerifLast is the rune most recently handed out.
func (lr *LexerReader) VerifLast() rune { return lr.char }
