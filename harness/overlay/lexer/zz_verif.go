package lexer

import (
	"ti/base"
	"ti/lexer/reader"
	"ti/verifapi"
)

// verifKnownTok: the token kinds parser.Read has a case for.
func verifKnownTok(t rune) bool {
	switch t {
	case base.INT, base.FLOAT, base.STRING, base.NIL, base.UNKNOWN,
		';', '^', '+', '-', '/', '*', '>', '<', '(', ')', ',', '\n', '{', '}', '[', ']', '!', '|', '=', '.':
		return true
	}
	return false
}

func VerifCurTok(l *Lexer) rune { return l.tok }

// VerifLexAll: C03(a). n fully symbolic runes through the real reader and lexer.
//   progress  - at most n tokens are produced (each token consumes at least one rune)
//   kind      - every token kind is one parser.Read accepts
//   consumed  - when Advance gives up, every rune has been read (nothing silently dropped)
// Termination is the per-path step budget (unwinding assertion).
func VerifLexAll(n int) {
	runes := make([]rune, n)
	for i := range runes {
		runes[i] = verifapi.Rune("r")
	}
	verifapi.Witness("src", string(runes))
	lr := reader.VerifNew(runes)
	l := New(lr)
	count := 0
	for {
		ok := l.Advance()
		if !ok {
			break
		}
		count++
		verifapi.Classify("progress/more-tokens-than-runes")
		verifapi.Assert(count <= n, "progress")
		verifapi.Classify("kind/token-kind-unknown-to-parser/" + string(l.tok))
		verifapi.Assert(verifKnownTok(l.tok), "kind")
	}
	verifapi.Reach("eos")
	// where the lexer gave up: inside a line comment that starts the input (no newline
	// between the leading '#' and the last rune read), or anywhere else
	where := ""
	if !l.reader.VerifAtEOF() && n > 1 && runes[0] == '#' && runes[1] != '{' { // `#{` is a token, not a comment
		inComment := true
		for i := 1; i < l.reader.VerifPos()-1 && i < n; i++ {
			if runes[i] == '\n' {
				inComment = false
			}
		}
		if inComment {
			where = "/inside-a-line-comment-that-starts-the-input"
		}
	}
	verifapi.Classify("consumed/lexer-stops-before-end-at-rune/" + string(l.reader.VerifLast()) + where)
	verifapi.Assert(l.reader.VerifAtEOF(), "consumed")
}
