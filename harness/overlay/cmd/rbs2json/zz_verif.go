package main

import (
	"ti/base"
	"ti/builtin"
	me "ti/eval/method_evaluator"
	"ti/verifapi"
)

func verifItoa(i int) string { return verifapi.Pick(i, "0", "1", "2", "3", "4", "5", "6", "7", "8", "9") }

// VerifConvertArgs: C25 kernel. An RBS function type of symbolic shape (<=2 required, <=1
// optional, optional rest, <=1 trailing positionals, <=2 required and <=2 optional keywords)
// is converted twice with the iteration order of both keyword maps left to the solver
// (schedule variables):
//   - the two emitted argument lists are identical (determinism),
//   - the order is required positionals, optional (is_default), rest (is_asterisk),
//     trailing, required keywords, optional keywords (is_default),
//   - loaded by ti's real config loader and called with k positionals and a subset of the
//     keywords, the call is accepted exactly when the RBS arity allows it.
func VerifConvertArgs(n int) {
	t := &RBSType{Class: "class_instance", Name: "Integer"}
	ft := RBSFuncType{ReturnType: *t}
	nr := verifapi.Concrete(verifapi.Int("nreq", 0, 2))
	nopt := verifapi.Concrete(verifapi.Int("nopt", 0, 1))
	rest := verifapi.Concrete(verifapi.Int("rest", 0, 1))
	ntr := verifapi.Concrete(verifapi.Int("ntrail", 0, 1))
	for i := 0; i < nr; i++ {
		ft.RequiredPositionals = append(ft.RequiredPositionals, RBSParam{Type: t})
	}
	for i := 0; i < nopt; i++ {
		ft.OptionalPositionals = append(ft.OptionalPositionals, RBSParam{Type: t})
	}
	if rest == 1 {
		ft.RestPositionals = &RBSParam{Type: t}
	}
	for i := 0; i < ntr; i++ {
		ft.TrailingPositionals = append(ft.TrailingPositionals, RBSParam{Type: t})
	}
	// keyword names: optional names after, between and before the required ones
	ns := verifapi.Concrete(verifapi.Int("names", 0, 3))
	rk := [][]string{{"b", "a"}, {"m", "a"}, {"y", "x"}, {"k", "k1"}}[ns]
	ok := [][]string{{"d", "c"}, {"z", "c"}, {"b", "a"}, {"j", "k0"}}[ns]
	ft.RequiredKeywords = map[string]RBSParam{}
	ft.OptionalKeywords = map[string]RBSParam{}
	nk := verifapi.Concrete(verifapi.Int("nkw", 0, 2))
	for i := 0; i < nk; i++ {
		ft.RequiredKeywords[rk[i]] = RBSParam{Type: t}
	}
	no := verifapi.Concrete(verifapi.Int("nokw", 0, 2))
	for i := 0; i < no; i++ {
		ft.OptionalKeywords[ok[i]] = RBSParam{Type: t}
	}
	verifapi.AnyOrder(ft.RequiredKeywords)
	verifapi.AnyOrder(ft.OptionalKeywords)
	shape := "req" + verifItoa(nr) + "-opt" + verifItoa(nopt) + "-rest" + verifItoa(rest) + "-trail" + verifItoa(ntr) + "-rkw" + verifItoa(nk) + "-okw" + verifItoa(no)
	verifapi.Witness("shape", shape)

	a1 := convertArguments(ft, typeAliasMap{}, "C")
	a2 := convertArguments(ft, typeAliasMap{}, "C")
	verifapi.Reach("converted")
	verifapi.Classify("C25/argument-count-differs-between-runs")
	verifapi.Assert(len(a1) == len(a2), "C25-len")
	for i := range a1 {
		if i < len(a2) {
			verifapi.Classify("C25/keyword-order-depends-on-map-iteration")
			verifapi.Assert(a1[i].Key == a2[i].Key, "C25-deterministic")
		}
	}
	// documented order
	verifapi.Classify("C25/argument-count-wrong/" + shape)
	verifapi.Assert(len(a1) == nr+nopt+rest+ntr+nk+no, "C25-count")
	if len(a1) != nr+nopt+rest+ntr+nk+no {
		return
	}
	idx := 0
	bad := ""
	for i := 0; i < nr; i++ {
		if a1[idx].Key != "" || a1[idx].IsDefault || a1[idx].IsAsterisk {
			bad = "required-positional"
		}
		idx++
	}
	for i := 0; i < nopt; i++ {
		if a1[idx].Key != "" || !a1[idx].IsDefault || a1[idx].IsAsterisk {
			bad = "optional-positional"
		}
		idx++
	}
	if rest == 1 {
		if a1[idx].Key != "" || a1[idx].IsDefault || !a1[idx].IsAsterisk {
			bad = "rest"
		}
		idx++
	}
	for i := 0; i < ntr; i++ {
		if a1[idx].Key != "" || a1[idx].IsDefault || a1[idx].IsAsterisk {
			bad = "trailing-positional"
		}
		idx++
	}
	for i := 0; i < nk; i++ {
		if a1[idx].Key == "" || a1[idx].IsDefault || a1[idx].IsAsterisk {
			bad = "required-keyword"
		}
		idx++
	}
	for i := 0; i < no; i++ {
		if a1[idx].Key == "" || !a1[idx].IsDefault || a1[idx].IsAsterisk {
			bad = "optional-keyword"
		}
		idx++
	}
	verifapi.Classify("C25/documented-order-violated/" + bad + "/" + shape)
	verifapi.Assert(bad == "", "C25-order")
	for _, a := range a1 {
		verifapi.Classify("C25/type-mapping/Integer-not-mapped-to-Int")
		verifapi.Assert(len(a.Type) == 1 && a.Type[0] == "Int", "C25-type")
	}

	// ---- arity through ti's loader and argument checker ----
	if n < 1 {
		return
	}
	var types [][]string
	var keys []string
	var defs, asts []bool
	for _, a := range a1 {
		types = append(types, a.Type)
		keys = append(keys, a.Key)
		defs = append(defs, a.IsDefault)
		asts = append(asts, a.IsAsterisk)
	}
	decl := builtin.VerifParseArgs(types, keys, defs, asts)
	np := verifapi.Concrete(verifapi.Int("npos", 0, n))
	var given []string
	missingReq := false
	for i := 0; i < nk; i++ {
		if verifapi.Bool("give") {
			given = append(given, rk[i]+":")
		} else {
			missingReq = true
		}
	}
	for i := 0; i < no; i++ {
		if verifapi.Bool("giveopt") {
			given = append(given, ok[i]+":")
		}
	}
	accepted := me.VerifArityAccepted(decl, np, given)
	allowed := np >= nr+ntr && (rest == 1 || np <= nr+nopt+ntr) && !missingReq
	verifapi.Reach("called")
	// class by root cause: the required positionals are always bound first, so only the
	// number of positionals left after them matters
	pshape := "opt" + verifItoa(nopt) + "-rest" + verifItoa(rest) + "-trail" + verifItoa(ntr)
	free := "free-positionals=none-or-negative"
	if np > nr {
		free = "free-positionals=" + verifItoa(np-nr)
	}
	switch {
	case allowed:
		verifapi.Classify("C25/arity/allowed-call-rejected/" + pshape + "/" + free)
	case np < nr+ntr:
		verifapi.Classify("C25/arity/too-few-positionals-accepted/" + pshape + "/" + free)
	case rest == 0 && np > nr+nopt+ntr:
		verifapi.Classify("C25/arity/too-many-positionals-accepted/" + pshape + "/" + free)
	default:
		verifapi.Classify("C25/arity/missing-required-keyword-accepted/" + pshape + "/" + free)
	}
	verifapi.Assert(accepted == allowed, "C25-arity")
}

var _ = base.NIL

// VerifConvertDecls: C25, declaration level. A class declaration with a singleton method
// `parse` (na Integer parameters -> Integer), optionally an instance method of the same name
// (ni parameters -> String), `initialize`, an attribute, a nested class, and alias members of
// a concretised shape (single / chained, singleton / instance / both) is converted by the real
// convertDeclarations. na and ni are solver variables. Asserted: every alias name is emitted
// on the side (class / instance) it was declared for, with the argument count and return type
// of the method it (transitively) names; nothing is emitted on the other side; `initialize`
// becomes the class method `new` returning the class; the nested class gets the nested frame;
// converting twice gives the same methods in the same order.
func VerifConvertDecls(n int) {
	ti := &RBSType{Class: "class_instance", Name: "Integer"}
	ts := &RBSType{Class: "class_instance", Name: "String"}
	na := verifapi.Int("class_arity", 0, 2)
	ni := verifapi.Int("inst_arity", 0, 2)
	shape := verifapi.Concrete(verifapi.Int("aliases", 0, 5))
	namesake := verifapi.Concrete(verifapi.Int("namesake", 0, 1))
	fn := func(k int, ret *RBSType) []RBSOverload {
		ft := RBSFuncType{ReturnType: *ret}
		for i := 0; i < k; i++ {
			ft.RequiredPositionals = append(ft.RequiredPositionals, RBSParam{Type: ti})
		}
		return []RBSOverload{{MethodType: RBSMethodType{Type: ft}}}
	}
	members := []RBSMember{{Member: "method_definition", Name: "parse", Kind: "singleton", Overloads: fn(na, ti)}}
	if namesake == 1 {
		members = append(members, RBSMember{Member: "method_definition", Name: "parse", Kind: "instance", Overloads: fn(ni, ts)})
	} else {
		members = append(members, RBSMember{Member: "method_definition", Name: "render", Kind: "instance", Overloads: fn(ni, ts)})
	}
	instOrigin := []string{"render", "parse"}[namesake]
	alias := func(kind, nw, old string) RBSMember {
		return RBSMember{Member: "alias", Kind: kind, NewName: nw, OldName: old}
	}
	type want struct {
		name      string
		singleton bool
	}
	var wants []want
	name := ""
	switch shape {
	case 0:
		name = "single-singleton-alias"
		members = append(members, alias("singleton", "read", "parse"))
		wants = []want{{"read", true}}
	case 1:
		name = "chain-of-two-singleton-aliases"
		members = append(members, alias("singleton", "read", "parse"), alias("singleton", "load", "read"))
		wants = []want{{"read", true}, {"load", true}}
	case 2:
		name = "chain-of-three-singleton-aliases"
		members = append(members, alias("singleton", "read", "parse"), alias("singleton", "load", "read"), alias("singleton", "fetch", "load"))
		wants = []want{{"read", true}, {"load", true}, {"fetch", true}}
	case 3:
		name = "single-instance-alias"
		members = append(members, alias("instance", "show", instOrigin))
		wants = []want{{"show", false}}
	case 4:
		name = "chain-of-two-instance-aliases"
		members = append(members, alias("instance", "show", instOrigin), alias("instance", "print", "show"))
		wants = []want{{"show", false}, {"print", false}}
	case 5:
		name = "interleaved-singleton-and-instance-chains-with-shared-names"
		members = append(members, alias("singleton", "read", "parse"), alias("instance", "read", instOrigin), alias("singleton", "load", "read"), alias("instance", "load", "read"))
		wants = []want{{"read", true}, {"load", true}, {"read", false}, {"load", false}}
	}
	if namesake == 1 {
		name += "/instance-method-named-like-the-singleton-method"
	}
	members = append(members,
		RBSMember{Member: "method_definition", Name: "initialize", Kind: "instance", Overloads: fn(1, &RBSType{Class: "void"})},
		RBSMember{Member: "attr_reader", Name: "size", Type: ti},
		RBSMember{Declaration: "class", Name: "Inner", Members: []RBSMember{{Member: "method_definition", Name: "run", Kind: "instance", Overloads: fn(0, ti)}}})
	decls := []RBSDeclaration{{Declaration: "class", Name: "Conv", Members: members}}
	verifapi.Witness("C25.shape", name)
	c1 := convertDeclarations(decls, "")
	c2 := convertDeclarations(decls, "")
	verifapi.Reach("converted")
	find := func(cs []TiClassConfig, class string) *TiClassConfig {
		for i := range cs {
			if cs[i].Class == class {
				return &cs[i]
			}
		}
		return nil
	}
	conv := find(c1, "Conv")
	verifapi.Classify("C25/declaration/class-not-emitted")
	verifapi.Assert(conv != nil && len(c1) == 2 && len(c2) == 2, "C25-decl-class")
	if conv == nil || len(c1) != 2 || len(c2) != 2 {
		return
	}
	count := func(ms []TiMethod, nm string) (k, args int, ret string) {
		args = -1
		for _, m := range ms {
			if m.Name == nm {
				k++
				args = len(m.Arguments)
				if len(m.ReturnType.Type) == 1 {
					ret = m.ReturnType.Type[0]
				}
			}
		}
		return
	}
	hasSide := func(nm string, singleton bool) bool {
		for _, w := range wants {
			if w.name == nm && w.singleton == singleton {
				return true
			}
		}
		return false
	}
	for _, w := range wants {
		side := "instance"
		ms, arity, ret := conv.InstanceMethods, ni, "String"
		if w.singleton {
			side = "singleton"
			ms, arity, ret = conv.ClassMethods, na, "Int"
		}
		k, args, r := count(ms, w.name)
		verifapi.Classify("C25/declaration/alias-not-emitted-or-emitted-twice/" + side + "/" + name)
		verifapi.Assert(k == 1, "C25-alias-emitted")
		verifapi.Classify("C25/declaration/alias-signature-differs-from-the-aliased-method/" + side + "/" + name)
		verifapi.Assert(k != 1 || (args == arity && r == ret), "C25-alias-signature")
		if !hasSide(w.name, !w.singleton) {
			other := conv.ClassMethods
			if w.singleton {
				other = conv.InstanceMethods
			}
			ko, _, _ := count(other, w.name)
			verifapi.Classify("C25/declaration/alias-emitted-on-the-other-side/" + side + "/" + name)
			verifapi.Assert(ko == 0, "C25-alias-side")
		}
	}
	kn, an, rn := count(conv.ClassMethods, "new")
	verifapi.Classify("C25/declaration/initialize-not-converted-to-new-returning-the-class")
	verifapi.Assert(kn == 1 && an == 1 && rn == "Conv", "C25-new")
	inner := find(c1, "Inner")
	verifapi.Classify("C25/declaration/nested-class-frame-wrong")
	verifapi.Assert(inner != nil && inner.Frame == "Builtin::Conv" && conv.Frame == "Builtin", "C25-nested")
	// determinism of the declaration-level conversion
	same := true
	for ci := range c1 {
		a, b := c1[ci], c2[ci]
		if a.Class != b.Class || a.Frame != b.Frame || len(a.ClassMethods) != len(b.ClassMethods) || len(a.InstanceMethods) != len(b.InstanceMethods) {
			same = false
			continue
		}
		for i := range a.ClassMethods {
			if a.ClassMethods[i].Name != b.ClassMethods[i].Name || len(a.ClassMethods[i].Arguments) != len(b.ClassMethods[i].Arguments) {
				same = false
			}
		}
		for i := range a.InstanceMethods {
			if a.InstanceMethods[i].Name != b.InstanceMethods[i].Name || len(a.InstanceMethods[i].Arguments) != len(b.InstanceMethods[i].Arguments) {
				same = false
			}
		}
	}
	verifapi.Classify("C25/declaration/two-conversions-differ")
	verifapi.Assert(same, "C25-decl-deterministic")
}
