package main

import "ti/verifapi"

func VerifConvertArgs(n int) {
	t := &RBSType{Class: "class_instance", Name: "Integer"}
	ft := RBSFuncType{ReturnType: *t}
	nr := verifapi.Int("nreq", 0, 2)
	for i := 0; i < nr; i++ {
		ft.RequiredPositionals = append(ft.RequiredPositionals, RBSParam{Type: t})
	}
	rk := []string{"a", "b"}
	ok := []string{"c", "d"}
	ft.RequiredKeywords = map[string]RBSParam{}
	ft.OptionalKeywords = map[string]RBSParam{}
	nk := verifapi.Int("nkw", 0, 2)
	for i := 0; i < nk; i++ {
		ft.RequiredKeywords[rk[i]] = RBSParam{Type: t}
	}
	no := verifapi.Int("nopt", 0, 2)
	for i := 0; i < no; i++ {
		ft.OptionalKeywords[ok[i]] = RBSParam{Type: t}
	}
	verifapi.AnyOrder(ft.RequiredKeywords)
	verifapi.AnyOrder(ft.OptionalKeywords)

	a1 := convertArguments(ft, typeAliasMap{}, "C")
	a2 := convertArguments(ft, typeAliasMap{}, "C")
	verifapi.Reach("converted")
	verifapi.Assert(len(a1) == len(a2), "C25-len")
	for i := range a1 {
		verifapi.Assert(a1[i].Key == a2[i].Key, "C25-keyword-order-depends-on-map-iteration")
	}
	// documented shape: positionals first, then keywords, required keywords before optional ones
	seenKw, seenOpt := false, false
	for _, a := range a1 {
		if a.Key == "" {
			verifapi.Assert(!seenKw, "C25-positional-after-keyword")
		} else {
			seenKw = true
			if a.IsDefault {
				seenOpt = true
			} else {
				verifapi.Assert(!seenOpt, "C25-required-keyword-after-optional")
			}
		}
	}
}
