package main

import (
	"ti/base"
	"ti/builtin"
	me "ti/eval/method_evaluator"
	"ti/verifapi"
)

func verifItoa(i int) string { return verifapi.Pick(i, "0", "1", "2", "3", "4", "5", "6", "7", "8", "9") }

// VerifConvertArgs: C25 kernel. An RBS function type of symbolic shape (<=2 required, <=1
// optional, optional rest, <=1 trailing positionals, <=2 required and <=2 optional keywords)
// is converted twice with the iteration order of both keyword maps left to the solver
// (schedule variables):
//   - the two emitted argument lists are identical (determinism),
//   - the order is required positionals, optional (is_default), rest (is_asterisk),
//     trailing, required keywords, optional keywords (is_default),
//   - loaded by ti's real config loader and called with k positionals and a subset of the
//     keywords, the call is accepted exactly when the RBS arity allows it.
func VerifConvertArgs(n int) {
	t := &RBSType{Class: "class_instance", Name: "Integer"}
	ft := RBSFuncType{ReturnType: *t}
	nr := verifapi.Concrete(verifapi.Int("nreq", 0, 2))
	nopt := verifapi.Concrete(verifapi.Int("nopt", 0, 1))
	rest := verifapi.Concrete(verifapi.Int("rest", 0, 1))
	ntr := verifapi.Concrete(verifapi.Int("ntrail", 0, 1))
	for i := 0; i < nr; i++ {
		ft.RequiredPositionals = append(ft.RequiredPositionals, RBSParam{Type: t})
	}
	for i := 0; i < nopt; i++ {
		ft.OptionalPositionals = append(ft.OptionalPositionals, RBSParam{Type: t})
	}
	if rest == 1 {
		ft.RestPositionals = &RBSParam{Type: t}
	}
	for i := 0; i < ntr; i++ {
		ft.TrailingPositionals = append(ft.TrailingPositionals, RBSParam{Type: t})
	}
	// keyword names: optional names after, between and before the required ones
	ns := verifapi.Concrete(verifapi.Int("names", 0, 3))
	rk := [][]string{{"b", "a"}, {"m", "a"}, {"y", "x"}, {"k", "k1"}}[ns]
	ok := [][]string{{"d", "c"}, {"z", "c"}, {"b", "a"}, {"j", "k0"}}[ns]
	ft.RequiredKeywords = map[string]RBSParam{}
	ft.OptionalKeywords = map[string]RBSParam{}
	nk := verifapi.Concrete(verifapi.Int("nkw", 0, 2))
	for i := 0; i < nk; i++ {
		ft.RequiredKeywords[rk[i]] = RBSParam{Type: t}
	}
	no := verifapi.Concrete(verifapi.Int("nokw", 0, 2))
	for i := 0; i < no; i++ {
		ft.OptionalKeywords[ok[i]] = RBSParam{Type: t}
	}
	verifapi.AnyOrder(ft.RequiredKeywords)
	verifapi.AnyOrder(ft.OptionalKeywords)
	shape := "req" + verifItoa(nr) + "-opt" + verifItoa(nopt) + "-rest" + verifItoa(rest) + "-trail" + verifItoa(ntr) + "-rkw" + verifItoa(nk) + "-okw" + verifItoa(no)
	verifapi.Witness("shape", shape)

	a1 := convertArguments(ft, typeAliasMap{}, "C")
	a2 := convertArguments(ft, typeAliasMap{}, "C")
	verifapi.Reach("converted")
	verifapi.Classify("C25/argument-count-differs-between-runs")
	verifapi.Assert(len(a1) == len(a2), "C25-len")
	for i := range a1 {
		if i < len(a2) {
			verifapi.Classify("C25/keyword-order-depends-on-map-iteration")
			verifapi.Assert(a1[i].Key == a2[i].Key, "C25-deterministic")
		}
	}
	// documented order
	verifapi.Classify("C25/argument-count-wrong/" + shape)
	verifapi.Assert(len(a1) == nr+nopt+rest+ntr+nk+no, "C25-count")
	if len(a1) != nr+nopt+rest+ntr+nk+no {
		return
	}
	idx := 0
	bad := ""
	for i := 0; i < nr; i++ {
		if a1[idx].Key != "" || a1[idx].IsDefault || a1[idx].IsAsterisk {
			bad = "required-positional"
		}
		idx++
	}
	for i := 0; i < nopt; i++ {
		if a1[idx].Key != "" || !a1[idx].IsDefault || a1[idx].IsAsterisk {
			bad = "optional-positional"
		}
		idx++
	}
	if rest == 1 {
		if a1[idx].Key != "" || a1[idx].IsDefault || !a1[idx].IsAsterisk {
			bad = "rest"
		}
		idx++
	}
	for i := 0; i < ntr; i++ {
		if a1[idx].Key != "" || a1[idx].IsDefault || a1[idx].IsAsterisk {
			bad = "trailing-positional"
		}
		idx++
	}
	for i := 0; i < nk; i++ {
		if a1[idx].Key == "" || a1[idx].IsDefault || a1[idx].IsAsterisk {
			bad = "required-keyword"
		}
		idx++
	}
	for i := 0; i < no; i++ {
		if a1[idx].Key == "" || !a1[idx].IsDefault || a1[idx].IsAsterisk {
			bad = "optional-keyword"
		}
		idx++
	}
	verifapi.Classify("C25/documented-order-violated/" + bad + "/" + shape)
	verifapi.Assert(bad == "", "C25-order")
	for _, a := range a1 {
		verifapi.Classify("C25/type-mapping/Integer-not-mapped-to-Int")
		verifapi.Assert(len(a.Type) == 1 && a.Type[0] == "Int", "C25-type")
	}

	// ---- arity through ti's loader and argument checker ----
	if n < 1 {
		return
	}
	var types [][]string
	var keys []string
	var defs, asts []bool
	for _, a := range a1 {
		types = append(types, a.Type)
		keys = append(keys, a.Key)
		defs = append(defs, a.IsDefault)
		asts = append(asts, a.IsAsterisk)
	}
	decl := builtin.VerifParseArgs(types, keys, defs, asts)
	np := verifapi.Concrete(verifapi.Int("npos", 0, n))
	var given []string
	missingReq := false
	for i := 0; i < nk; i++ {
		if verifapi.Bool("give") {
			given = append(given, rk[i]+":")
		} else {
			missingReq = true
		}
	}
	for i := 0; i < no; i++ {
		if verifapi.Bool("giveopt") {
			given = append(given, ok[i]+":")
		}
	}
	accepted := me.VerifArityAccepted(decl, np, given)
	allowed := np >= nr+ntr && (rest == 1 || np <= nr+nopt+ntr) && !missingReq
	verifapi.Reach("called")
	// class by root cause: the required positionals are always bound first, so only the
	// number of positionals left after them matters
	pshape := "opt" + verifItoa(nopt) + "-rest" + verifItoa(rest) + "-trail" + verifItoa(ntr)
	free := "free-positionals=none-or-negative"
	if np > nr {
		free = "free-positionals=" + verifItoa(np-nr)
	}
	switch {
	case allowed:
		verifapi.Classify("C25/arity/allowed-call-rejected/" + pshape + "/" + free)
	case np < nr+ntr:
		verifapi.Classify("C25/arity/too-few-positionals-accepted/" + pshape + "/" + free)
	case rest == 0 && np > nr+nopt+ntr:
		verifapi.Classify("C25/arity/too-many-positionals-accepted/" + pshape + "/" + free)
	default:
		verifapi.Classify("C25/arity/missing-required-keyword-accepted/" + pshape + "/" + free)
	}
	verifapi.Assert(accepted == allowed, "C25-arity")
}

var _ = base.NIL
