// Native twin of the harness API: returns the values of a recorded solver model so that the
// same harness function, compiled natively against the real code, replays a counterexample.
package verifapi

import (
	"encoding/json"
	"fmt"
	"os"
)

var model map[string]uint64
var counts map[string]int
var Failed []string

func Load() {
	model = map[string]uint64{}
	counts = map[string]int{}
	Failed = nil
	b, err := os.ReadFile(os.Getenv("VERIF_MODEL"))
	if err != nil {
		panic("VERIF_MODEL: " + err.Error())
	}
	if err := json.Unmarshal(b, &model); err != nil {
		panic(err)
	}
}

func next(name string) uint64 {
	n := counts[name]
	counts[name] = n + 1
	return model[fmt.Sprintf("%s_%d", name, n)]
}

func Rune(name string) rune { return rune(next(name)) }
func Int(name string, lo, hi int) int {
	v := int(int64(next(name)))
	return v
}
func Bool(name string) bool { return next(name) != 0 }
func Assume(c bool) {
	if !c {
		fmt.Println("VERIF-ASSUME-FAILED")
		os.Exit(3)
	}
}
func Assert(c bool, id string) {
	if !c {
		Failed = append(Failed, id)
		fmt.Println("VERIF-ASSERT-FAILED " + id)
	}
}
func Reach(id string) {}

func Source() string   { return os.Getenv("VERIF_SOURCE") }
func FileName() string { return os.Getenv("VERIF_FILE") }

func Pick(k int, alts ...string) string { return alts[k] }
func PickInt(k int, vals ...int) int    { return vals[k] }

func Concrete(v int) int { return v }
func StubLexer()         { panic("verifapi.StubLexer has no native twin") }
func Stubbed() bool      { return false }

func AnyOrder(m any) {}

func Snapshot() int           { panic("verifapi.Snapshot has no native twin") }
func Restore(mark int)        {}
func TakeStdout() string      { return "" }
func CatchExit(f func()) bool { f(); return false }

func Classify(class string)               {}
func Witness(name string, v string)       {}
func WitnessInt(name string, v int)       {}
func Twin() bool                          { return false }
func SetFile(path string, content string) {}

func WitnessList(name string, parts ...string) {}
func VfsOnly(prefix string) {}
func FlipOrder(m any) {}

// FlipAllMaps: from here on every range statement of the output printers (package ti/cmd) over
// a map with more than one entry (local maps included) iterates forward or backward, one
// schedule variable per executed range statement.
func FlipAllMaps() {}
func Thorough() bool { return false }

func CorpusCount() int          { return 0 }
func CorpusSource(i int) string { return "" }
func CorpusName(i int) string   { return "" }
