package main

import (
	"fmt"
	"go/types"
	"strings"
)

// ChoiceStr is a finite-domain symbolic string: a list of alternatives with mutually
// exclusive, jointly exhaustive (under the path condition) guards.
type ChoiceStr struct {
	guards []*Term
	alts   []string
}

func (c *ChoiceStr) String() string { return fmt.Sprintf("<choice %q>", c.alts) }

// mkChoiceG merges equal alternatives and drops false guards.
func (e *Engine) mkChoiceG(guards []*Term, alts []string) Value {
	pos := map[string]int{}
	var g []*Term
	var a []string
	for i := range alts {
		gi := e.simplify(guards[i])
		if gi.op == "false" {
			continue
		}
		if j, ok := pos[alts[i]]; ok {
			g[j] = e.ts.Or(g[j], gi)
			continue
		}
		pos[alts[i]] = len(a)
		g = append(g, gi)
		a = append(a, alts[i])
	}
	if len(a) == 1 {
		return a[0]
	}
	if len(a) == 0 {
		panic(pathEnd{kind: "infeasible", msg: "empty choice"})
	}
	for i := range g {
		if g[i].op == "true" {
			return a[i]
		}
	}
	return &ChoiceStr{guards: g, alts: a}
}

// mkChoice builds a choice string from an index term (kept for Pick).
func (e *Engine) mkChoice(idx *Term, alts []string) Value {
	g := make([]*Term, len(alts))
	for i := range alts {
		g[i] = e.ts.Cmp("=", idx, e.ts.BV(uint64(i), idx.w))
	}
	return e.mkChoiceG(g, alts)
}

func (e *Engine) choiceEq(a, b Value) Value {
	ca, aok := a.(*ChoiceStr)
	cb, bok := b.(*ChoiceStr)
	switch {
	case aok && bok:
		acc := e.ts.Bool(false)
		for i, x := range ca.alts {
			for j, y := range cb.alts {
				if x == y {
					acc = e.ts.Or(acc, e.ts.And(ca.guards[i], cb.guards[j]))
				}
			}
		}
		return termOrBool(acc)
	case aok:
		s, ok := b.(string)
		if !ok {
			panic(pathEnd{kind: "unsupported", msg: fmt.Sprintf("choice == %T", b)})
		}
		for i, x := range ca.alts {
			if x == s {
				return termOrBool(ca.guards[i])
			}
		}
		return false
	default:
		return e.choiceEq(b, a)
	}
}

func (e *Engine) liftStr(c *ChoiceStr, f func(string) Value) Value {
	res := make([]Value, len(c.alts))
	for i, a := range c.alts {
		res[i] = f(a)
	}
	switch res[0].(type) {
	case string:
		alts := make([]string, len(res))
		for i, r := range res {
			alts[i] = r.(string)
		}
		return e.mkChoiceG(c.guards, alts)
	case bool:
		acc := e.ts.Bool(false)
		for i, r := range res {
			if r.(bool) {
				acc = e.ts.Or(acc, c.guards[i])
			}
		}
		return termOrBool(acc)
	case int64:
		same := true
		for _, r := range res {
			if r != res[0] {
				same = false
			}
		}
		if same {
			return res[0]
		}
		t := e.ts.BV(uint64(res[len(res)-1].(int64)), 64)
		for i := len(res) - 2; i >= 0; i-- {
			t = e.ts.Ite(c.guards[i], e.ts.BV(uint64(res[i].(int64)), 64), t)
		}
		return t
	}
	panic(pathEnd{kind: "unsupported", msg: fmt.Sprintf("liftStr result %T", res[0])})
}

func (e *Engine) concretize(c *ChoiceStr) string {
	for i := range c.alts {
		if i == len(c.alts)-1 {
			return c.alts[i]
		}
		if e.decide(c.guards[i]) {
			return c.alts[i]
		}
	}
	panic("unreachable")
}

func (e *Engine) choiceConcat(cx, cy *ChoiceStr) Value {
	if len(cx.alts)*len(cy.alts) > 4096 {
		panic(pathEnd{kind: "unsupported", msg: "choice concat too large"})
	}
	var g []*Term
	var a []string
	for i, x := range cx.alts {
		for j, y := range cy.alts {
			gg := e.ts.And(cx.guards[i], cy.guards[j])
			if gg.op == "false" {
				continue
			}
			g = append(g, gg)
			a = append(a, x+y)
		}
	}
	return e.mkChoiceG(g, a)
}

type keyAlt struct {
	cond *Term
	key  Value
}

func (e *Engine) keyAlternatives(k Value) ([]keyAlt, bool) {
	switch k := k.(type) {
	case *ChoiceStr:
		out := make([]keyAlt, len(k.alts))
		for i, a := range k.alts {
			out[i] = keyAlt{k.guards[i], a}
		}
		return out, true
	case *Term:
		if k.w == 0 {
			return []keyAlt{{k, true}, {e.ts.Not(k), false}}, true
		}
		return nil, false
	case *Rope:
		return nil, false
	case Struct:
		parts, ok := e.altsOfList([]Value(k))
		if !ok {
			return nil, false
		}
		out := make([]keyAlt, len(parts))
		for i, p := range parts {
			out[i] = keyAlt{p.cond, Struct(p.key.([]Value))}
		}
		return out, true
	case Array:
		parts, ok := e.altsOfList([]Value(k))
		if !ok {
			return nil, false
		}
		out := make([]keyAlt, len(parts))
		for i, p := range parts {
			out[i] = keyAlt{p.cond, Array(p.key.([]Value))}
		}
		return out, true
	}
	return []keyAlt{{e.ts.Bool(true), k}}, true
}

func (e *Engine) altsOfList(fs []Value) ([]keyAlt, bool) {
	cur := []keyAlt{{e.ts.Bool(true), []Value{}}}
	for _, f := range fs {
		fa, ok := e.keyAlternatives(f)
		if !ok {
			return nil, false
		}
		var next []keyAlt
		for _, c := range cur {
			for _, a := range fa {
				cond := e.ts.And(c.cond, a.cond)
				if cond.op == "false" {
					continue
				}
				nk := append(append([]Value(nil), c.key.([]Value)...), a.key)
				next = append(next, keyAlt{cond, nk})
			}
		}
		if len(next) > 256 {
			return nil, false
		}
		cur = next
	}
	return cur, true
}

func (e *Engine) choiceIndex(c *ChoiceStr, idxv Value) (Value, bool) {
	i, ok := idxv.(int64)
	if !ok {
		return nil, false
	}
	for _, a := range c.alts {
		if i < 0 || i >= int64(len(a)) {
			return nil, false
		}
	}
	r := e.liftStr(c, func(a string) Value { return int64(a[i]) })
	if t, ok := r.(*Term); ok {
		return e.ts.Resize(t, 8, false), true
	}
	return r, true
}

func (e *Engine) liftSplit(c *ChoiceStr, sep string) (Value, bool) {
	var parts [][]string
	for _, a := range c.alts {
		parts = append(parts, strings.Split(a, sep))
	}
	n := len(parts[0])
	for _, p := range parts {
		if len(p) != n {
			return nil, false
		}
	}
	el := make([]Value, n)
	for j := 0; j < n; j++ {
		alts := make([]string, len(c.alts))
		for i := range c.alts {
			alts[i] = parts[i][j]
		}
		el[j] = e.mkChoiceG(c.guards, alts)
	}
	return Slice{arr: &Backing{elems: el}, len: n, cap: n}, true
}

var _ = types.Typ

// liftBool2 lifts a native predicate over two (possibly choice) strings.
func (e *Engine) liftBool2(a, b Value, f func(string, string) bool) Value {
	ca, aok := a.(*ChoiceStr)
	cb, bok := b.(*ChoiceStr)
	switch {
	case aok && bok:
		acc := e.ts.Bool(false)
		for i, x := range ca.alts {
			for j, y := range cb.alts {
				if f(x, y) {
					acc = e.ts.Or(acc, e.ts.And(ca.guards[i], cb.guards[j]))
				}
			}
		}
		return termOrBool(acc)
	case aok:
		y := e.cs(b)
		return e.liftStr(ca, func(x string) Value { return f(x, y) })
	case bok:
		x := e.cs(a)
		return e.liftStr(cb, func(y string) Value { return f(x, y) })
	}
	return f(e.cs(a), e.cs(b))
}
