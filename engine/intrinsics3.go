package main

import (
	"math/bits"
	"path/filepath"
	"sort"
	"strconv"
	"strings"
	"unicode"
	"unicode/utf8"
)

// registerIntrinsics3: pure standard-library string helpers, executed natively on concrete
// arguments (choice strings are concretised, i.e. the path forks per alternative).
func registerIntrinsics3(e *Engine) {
	e.intr["time.After"] = func(e *Engine, fr *frame, a []Value) Value { return &Chan{} } // the watchdog never fires: the step budget is the bound
	I := e.intr
	s1 := func(name string, f func(string) string) {
		I[name] = func(e *Engine, fr *frame, a []Value) Value {
			if c, ok := a[0].(*ChoiceStr); ok {
				return e.liftStr(c, func(x string) Value { return f(x) })
			}
			return f(e.cs(a[0]))
		}
	}
	s2 := func(name string, f func(string, string) string) {
		I[name] = func(e *Engine, fr *frame, a []Value) Value {
			if c, ok := a[0].(*ChoiceStr); ok {
				if y, ok := a[1].(string); ok {
					return e.liftStr(c, func(x string) Value { return f(x, y) })
				}
			}
			return f(e.cs(a[0]), e.cs(a[1]))
		}
	}
	b2 := func(name string, f func(string, string) bool) {
		I[name] = func(e *Engine, fr *frame, a []Value) Value { return e.liftBool2(a[0], a[1], f) }
	}
	i2 := func(name string, f func(string, string) int) {
		I[name] = func(e *Engine, fr *frame, a []Value) Value {
			if c, ok := a[0].(*ChoiceStr); ok {
				if y, ok := a[1].(string); ok {
					return e.liftStr(c, func(x string) Value { return int64(f(x, y)) })
				}
			}
			return int64(f(e.cs(a[0]), e.cs(a[1])))
		}
	}
	s1("strings.ToLower", strings.ToLower)
	s1("strings.ToUpper", strings.ToUpper)
	s1("strings.Title", strings.Title)
	s1("strconv.Quote", strconv.Quote)
	s2("strings.TrimSuffix", strings.TrimSuffix)
	s2("strings.TrimPrefix", strings.TrimPrefix)
	s2("strings.Trim", strings.Trim)
	s2("strings.TrimLeft", strings.TrimLeft)
	s2("strings.TrimRight", strings.TrimRight)
	b2("strings.HasSuffix", strings.HasSuffix)
	b2("strings.HasPrefix", strings.HasPrefix)
	b2("strings.EqualFold", strings.EqualFold)
	b2("strings.ContainsAny", strings.ContainsAny)
	i2("strings.LastIndex", strings.LastIndex)
	i2("strings.IndexAny", strings.IndexAny)
	i2("strings.Compare", strings.Compare)
	I["strings.Fields"] = func(e *Engine, fr *frame, a []Value) Value { return mkStrSlice(strings.Fields(e.cs(a[0]))) }
	I["strings.SplitN"] = func(e *Engine, fr *frame, a []Value) Value {
		return mkStrSlice(strings.SplitN(e.cs(a[0]), e.cs(a[1]), int(asInt(a[2]))))
	}
	I["strings.Repeat"] = func(e *Engine, fr *frame, a []Value) Value { return strings.Repeat(e.cs(a[0]), int(asInt(a[1]))) }
	I["strings.IndexByte"] = func(e *Engine, fr *frame, a []Value) Value {
		return int64(strings.IndexByte(e.cs(a[0]), byte(asInt(a[1]))))
	}
	I["strings.IndexRune"] = func(e *Engine, fr *frame, a []Value) Value {
		return int64(strings.IndexRune(e.cs(a[0]), rune(asInt(a[1]))))
	}
	I["strings.ContainsRune"] = func(e *Engine, fr *frame, a []Value) Value {
		return strings.ContainsRune(e.cs(a[0]), rune(asInt(a[1])))
	}
	I["strconv.FormatInt"] = func(e *Engine, fr *frame, a []Value) Value { return strconv.FormatInt(asInt(a[0]), int(asInt(a[1]))) }
	I["strconv.FormatBool"] = func(e *Engine, fr *frame, a []Value) Value { return strconv.FormatBool(a[0].(bool)) }
	I["unicode.ToLower"] = func(e *Engine, fr *frame, a []Value) Value { return int64(unicode.ToLower(rune(asInt(a[0])))) }
	I["unicode.ToUpper"] = func(e *Engine, fr *frame, a []Value) Value { return int64(unicode.ToUpper(rune(asInt(a[0])))) }
	I["unicode.IsPunct"] = func(e *Engine, fr *frame, a []Value) Value { return unicode.IsPunct(rune(asInt(a[0]))) }
	I["math/bits.Len"] = func(e *Engine, fr *frame, a []Value) Value { return int64(bits.Len(uint(asInt(a[0])))) }
	I["math/bits.Len64"] = func(e *Engine, fr *frame, a []Value) Value { return int64(bits.Len64(uint64(asInt(a[0])))) }
	// more of the standard library a changed /repo may reach for
	i2("strings.LastIndexAny", strings.LastIndexAny)
	s1("path/filepath.Base", filepath.Base)
	s1("path/filepath.Dir", filepath.Dir)
	s1("path/filepath.Ext", filepath.Ext)
	s1("path/filepath.Clean", filepath.Clean)
	s1("strings.ToTitle", strings.ToTitle)
	I["strings.LastIndexByte"] = func(e *Engine, fr *frame, a []Value) Value {
		return int64(strings.LastIndexByte(e.cs(a[0]), byte(asInt(a[1]))))
	}
	I["strings.Cut"] = func(e *Engine, fr *frame, a []Value) Value {
		b, af, ok := strings.Cut(e.cs(a[0]), e.cs(a[1]))
		return Tuple{b, af, ok}
	}
	I["strings.CutPrefix"] = func(e *Engine, fr *frame, a []Value) Value {
		af, ok := strings.CutPrefix(e.cs(a[0]), e.cs(a[1]))
		return Tuple{af, ok}
	}
	I["strings.CutSuffix"] = func(e *Engine, fr *frame, a []Value) Value {
		b, ok := strings.CutSuffix(e.cs(a[0]), e.cs(a[1]))
		return Tuple{b, ok}
	}
	I["unicode/utf8.RuneCountInString"] = func(e *Engine, fr *frame, a []Value) Value { return int64(utf8.RuneCountInString(e.cs(a[0]))) }
	I["unicode/utf8.RuneLen"] = func(e *Engine, fr *frame, a []Value) Value { return int64(utf8.RuneLen(rune(asInt(a[0])))) }
	I["unicode/utf8.ValidString"] = func(e *Engine, fr *frame, a []Value) Value { return utf8.ValidString(e.cs(a[0])) }
	for name, f := range map[string]func(rune) bool{"unicode.IsControl": unicode.IsControl, "unicode.IsGraphic": unicode.IsGraphic, "unicode.IsPrint": unicode.IsPrint,
		"unicode.IsSymbol": unicode.IsSymbol, "unicode.IsNumber": unicode.IsNumber, "unicode.IsTitle": unicode.IsTitle, "unicode.IsMark": unicode.IsMark} {
		f := f
		if _, have := I[name]; !have {
			I[name] = func(e *Engine, fr *frame, a []Value) Value { return f(rune(e.concreteInt(a[0], "rune"))) }
		}
	}
	I["unicode.ToTitle"] = func(e *Engine, fr *frame, a []Value) Value { return int64(unicode.ToTitle(rune(asInt(a[0])))) }
	I["strconv.ParseBool"] = func(e *Engine, fr *frame, a []Value) Value {
		b, err := strconv.ParseBool(e.cs(a[0]))
		if err != nil {
			return Tuple{false, e.errorValue(err.Error())}
		}
		return Tuple{b, Iface{}}
	}
	I["strconv.Unquote"] = func(e *Engine, fr *frame, a []Value) Value {
		r, err := strconv.Unquote(e.cs(a[0]))
		if err != nil {
			return Tuple{"", e.errorValue(err.Error())}
		}
		return Tuple{r, Iface{}}
	}
	lessAt := func(e *Engine, fr *frame, less Value, i, j int) bool {
		r := e.call(fr, less, []Value{int64(i), int64(j)}, nil)
		if b, ok := r.(bool); ok {
			return b
		}
		return e.decide(r.(*Term))
	}
	I["sort.SliceStable"] = I["sort.Slice"] // the insertion sort of sort.Slice's model is stable
	I["sort.SliceIsSorted"] = func(e *Engine, fr *frame, a []Value) Value {
		n := len(sliceElems(a[0].(Iface).v.(Slice)))
		for i := n - 1; i > 0; i-- {
			if lessAt(e, fr, a[1], i, i-1) {
				return false
			}
		}
		return true
	}
	I["sort.StringsAreSorted"] = func(e *Engine, fr *frame, a []Value) Value {
		var ss []string
		for _, x := range sliceElems(a[0].(Slice)) {
			ss = append(ss, e.cs(x))
		}
		return sort.StringsAreSorted(ss)
	}
	I["sort.SearchStrings"] = func(e *Engine, fr *frame, a []Value) Value {
		var ss []string
		for _, x := range sliceElems(a[0].(Slice)) {
			ss = append(ss, e.cs(x))
		}
		return int64(sort.SearchStrings(ss, e.cs(a[1])))
	}
	I["sort.Ints"] = func(e *Engine, fr *frame, a []Value) Value {
		s := a[0].(Slice)
		el := sliceElems(s)
		for i := 1; i < len(el); i++ {
			for j := i; j > 0 && asInt(el[j]) < asInt(el[j-1]); j-- {
				x, y := el[j], el[j-1]
				e.rawStore(&el[j], y)
				e.rawStore(&el[j-1], x)
			}
		}
		return nil
	}
}
