package main

import (
	"fmt"
	"strings"
)

// evalTerm evaluates t under a model (variable name -> value; absent = 0).
func evalTerm(t *Term, m map[string]uint64) uint64 {
	b2u := func(b bool) uint64 {
		if b {
			return 1
		}
		return 0
	}
	switch t.op {
	case "var":
		return m[t.name] & maskOrBool(t.w)
	case "const":
		return t.val
	case "true":
		return 1
	case "false":
		return 0
	case "not":
		return 1 - evalTerm(t.args[0], m)
	case "and":
		return b2u(evalTerm(t.args[0], m) == 1 && evalTerm(t.args[1], m) == 1)
	case "or":
		return b2u(evalTerm(t.args[0], m) == 1 || evalTerm(t.args[1], m) == 1)
	case "ite":
		if evalTerm(t.args[0], m) == 1 {
			return evalTerm(t.args[1], m)
		}
		return evalTerm(t.args[2], m)
	case "extract":
		return (evalTerm(t.args[0], m) >> uint(t.b)) & mask(t.w)
	case "zext":
		return evalTerm(t.args[0], m)
	case "sext":
		a := t.args[0]
		return uint64(sext(evalTerm(a, m), a.w)) & mask(t.w)
	case "bvneg":
		return (-evalTerm(t.args[0], m)) & mask(t.w)
	case "bvnot":
		return (^evalTerm(t.args[0], m)) & mask(t.w)
	}
	if len(t.args) == 2 {
		a, b := t.args[0], t.args[1]
		x, y := evalTerm(a, m), evalTerm(b, m)
		w := a.w
		switch t.op {
		case "=":
			return b2u(x == y)
		case "bvult":
			return b2u(x < y)
		case "bvule":
			return b2u(x <= y)
		case "bvslt":
			return b2u(sext(x, w) < sext(y, w))
		case "bvsle":
			return b2u(sext(x, w) <= sext(y, w))
		case "bvadd":
			return (x + y) & mask(w)
		case "bvsub":
			return (x - y) & mask(w)
		case "bvmul":
			return (x * y) & mask(w)
		case "bvand":
			return x & y
		case "bvor":
			return x | y
		case "bvxor":
			return x ^ y
		case "bvshl":
			if y >= uint64(w) {
				return 0
			}
			return (x << y) & mask(w)
		case "bvlshr":
			if y >= uint64(w) {
				return 0
			}
			return x >> y
		case "bvashr":
			if y >= uint64(w) {
				y = uint64(w - 1)
			}
			return uint64(sext(x, w)>>y) & mask(w)
		case "bvudiv":
			if y == 0 {
				return mask(w)
			}
			return x / y
		case "bvurem":
			if y == 0 {
				return x
			}
			return x % y
		case "bvsdiv":
			if y == 0 {
				if sext(x, w) < 0 {
					return 1
				}
				return mask(w)
			}
			return uint64(sext(x, w)/sext(y, w)) & mask(w)
		case "bvsrem":
			if y == 0 {
				return x
			}
			return uint64(sext(x, w)%sext(y, w)) & mask(w)
		}
	}
	panic("evalTerm: " + t.op)
}

func maskOrBool(w int) uint64 {
	if w == 0 {
		return 1
	}
	return mask(w)
}

// evalString renders a (possibly symbolic) string or scalar value under a model.
func (e *Engine) evalString(v Value, m map[string]uint64) string {
	switch v := v.(type) {
	case string:
		return v
	case *ChoiceStr:
		for i, g := range v.guards {
			if evalTerm(g, m) == 1 {
				return v.alts[i]
			}
		}
		return v.alts[len(v.alts)-1]
	case *Rope:
		var sb strings.Builder
		for _, el := range v.elems {
			switch el := el.(type) {
			case int64:
				sb.WriteRune(rune(el))
			case *Term:
				sb.WriteRune(rune(evalTerm(el, m)))
			}
		}
		return sb.String()
	case *Term:
		x := evalTerm(v, m)
		if v.w == 0 {
			if x == 1 {
				return "true"
			}
			return "false"
		}
		return fmt.Sprint(sext(x, v.w))
	case int64:
		return fmt.Sprint(v)
	case bool:
		return fmt.Sprint(v)
	case Slice:
		var parts []string
		for _, el := range sliceElems(v) {
			parts = append(parts, e.evalString(el, m))
		}
		return strings.Join(parts, ",")
	}
	return fmt.Sprint(v)
}
