package main

import (
	"encoding/json"
	"fmt"
	"go/token"
	"os"
	"path/filepath"
	"sort"
	"strings"
	"sync"

	"golang.org/x/tools/go/ssa"
	"golang.org/x/tools/go/ssa/ssautil"
)

// Development aid (-cover): which basic blocks of the functions in a property's anchor files
// were executed by at least one explored path of the property's jobs. Used to find what the
// skeletons / alphabets of a check do not reach; not part of any verdict.
var (
	coverOn  bool
	coverMu  sync.Mutex
	coverHit = map[*ssa.BasicBlock]bool{}
)

func anchorFiles(id string) []string {
	f, err := os.ReadFile("/verif/properties.jsonl")
	if err != nil {
		return nil
	}
	for _, l := range strings.Split(string(f), "\n") {
		var d struct {
			ID      string `json:"id"`
			Anchors struct {
				Files []string `json:"files"`
			} `json:"anchors"`
		}
		if json.Unmarshal([]byte(l), &d) == nil && d.ID == id {
			return d.Anchors.Files
		}
	}
	return nil
}

func blockLine(fset *token.FileSet, b *ssa.BasicBlock) int {
	for _, in := range b.Instrs {
		if p := in.Pos(); p.IsValid() {
			return fset.Position(p).Line
		}
	}
	return 0
}

func coverReport(prog *ssa.Program, id string, extra []string) {
	files := map[string]bool{}
	for _, f := range append(anchorFiles(id), extra...) {
		files[f] = true
	}
	type row struct {
		file, fn string
		line     int
		total    int
		hit      int
		missing  []int
	}
	var rows []row
	for fn := range ssautil.AllFunctions(prog) {
		if fn.Blocks == nil || !fn.Pos().IsValid() {
			continue
		}
		pos := prog.Fset.Position(fn.Pos())
		rel, err := filepath.Rel(repoDir, pos.Filename)
		if err != nil || !files[rel] {
			continue
		}
		r := row{file: rel, fn: fn.String(), line: pos.Line, total: len(fn.Blocks)}
		seen := map[int]bool{}
		for _, b := range fn.Blocks {
			if coverHit[b] {
				r.hit++
			} else if l := blockLine(prog.Fset, b); l > 0 && !seen[l] {
				seen[l] = true
				r.missing = append(r.missing, l)
			}
		}
		sort.Ints(r.missing)
		rows = append(rows, r)
	}
	sort.Slice(rows, func(i, j int) bool {
		if rows[i].file != rows[j].file {
			return rows[i].file < rows[j].file
		}
		return rows[i].line < rows[j].line
	})
	tot, hit := 0, 0
	for _, r := range rows {
		tot += r.total
		hit += r.hit
		switch {
		case r.hit == 0:
			fmt.Printf("COVER %s:%d %s NOT ENTERED (%d blocks)\n", r.file, r.line, r.fn, r.total)
		case r.hit < r.total:
			fmt.Printf("COVER %s:%d %s %d/%d missing lines %v\n", r.file, r.line, r.fn, r.hit, r.total, r.missing)
		}
	}
	fmt.Printf("COVER %s: %d/%d blocks of %d functions in anchor files\n", id, hit, tot, len(rows))
}
