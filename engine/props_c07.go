package main

import "strings"

var fmtStubs = map[string]string{
	"ti/base.TypeToString":                       "str:T",
	"ti/base.UnionTypeToString":                  "str:U",
	"ti/base.TypeToStringForSignature":           "str:T",
	"ti/eval/method_evaluator.makeTypeError":     "err:type mismatch (message formatting stubbed)",
	"ti/eval/method_evaluator.makeDefineArgumentInfo": "str:(...)",
}

func argKernelJobs(tier string, prefix string) []*Job {
	n := 2
	if tier == "thorough" {
		n = 3
	}
	na := 3
	if tier == "thorough" {
		na = 5
	}
	bc := f4Job("builtin-calls", "VerifBuiltinCalls", 0, []string{"ran"}, []string{"C07-call", "C08-call"},
		"11 calls of real configured methods of the core configuration (Integer#+, String#+, String#*, Array#push/first/join/at, Integer#to_s, String#upcase/to_sym) whose receiver or argument is a leaf of solver-chosen kind, or a union of two solver-chosen kinds; the call's row must carry a diagnostic iff the call certainly fails and none iff it certainly fits")
	return []*Job{bc,
		{Name: "callArgs", Pkg: "ti/eval/method_evaluator", Entry: "VerifCallArgs", N: na, Budget: 600000,
			Reach: []string{"called"}, Asserts: []string{"C07-args-misuse-accepted", "C08-args-fit-rejected"}, Replay: "kernel", Cross: true, Stubs: fmtStubs,
			Bound: sprintf("checkAndPropagateArgs (check round) on a configured method with r<=2 required, o<=1 defaulted, optional *rest, p<=1 trailing, <=2 keywords (required/defaulted), declared kinds Integer/String, called with <=%d positionals of kinds Integer/String/NilClass, any subset of the declared keywords and optionally an undeclared one", na)},
		{Name: "checkArgType", Pkg: "ti/eval/method_evaluator", Entry: "VerifCheckArgType", N: n, Budget: 400000,
			Reach: []string{"checked"}, Asserts: []string{"C08-fits-but-rejected", "C07-misfit-but-accepted"}, Replay: "kernel", Cross: true, Stubs: fmtStubs,
			Bound: sprintf("checkArgType on every parameter T that is a scalar or a union of <=3 kinds (11 value kinds incl. two object classes, untyped) and every argument T that is a scalar or union of <=%d kinds (those + unknown + block)", n)},
	}
}

func init() {
	c07 := func(v *Violation) bool { return strings.HasPrefix(v.ID, "C07") || v.ID == "nopanic" || v.ID == "termination" }
	c08 := func(v *Violation) bool { return strings.HasPrefix(v.ID, "C08") }
	stubs := []string{"base.TypeToString, base.UnionTypeToString, TypeToStringForSignature, makeTypeError, makeDefineArgumentInfo: replaced by opaque strings/errors in kernel jobs (the oracle never reads the message text)"}
	register(&Property{ID: "C07", Jobs: func(t string) []*Job { return argKernelJobs(t, "C07") }, Filter: c07, Stubs: stubs, Custom: replayCallsOrKernel,
		Functions: []string{"ti/eval/method_evaluator.checkArgType", "(*ti/base.T).IsMatchType", "(*ti/base.T).IsMatchUnionType", "ti/eval/method_evaluator.checkAndPropagateArgs"},
		Outside:   "unions of more than 3 variants, more than 5 arguments, subclass-compatible object arguments, user-defined callees (C15)"})
	register(&Property{ID: "C08", Jobs: func(t string) []*Job { return argKernelJobs(t, "C08") }, Filter: c08, Stubs: stubs, Custom: replayCallsOrKernel,
		Functions: []string{"ti/eval/method_evaluator.checkArgType", "(*ti/base.T).IsMatchType", "(*ti/base.T).IsMatchUnionType", "ti/eval/method_evaluator.checkAndPropagateArgs"},
		Outside:   "unions of more than 3 variants, more than 5 arguments, subclass-compatible object arguments, user-defined callees (C15)"})
}

// replayCallsOrKernel: program-level builtin-call counterexamples are re-judged on the native
// binary; kernel counterexamples fall through to the generic kernel replay.
func replayCallsOrKernel(n *Native, job *Job, v *Violation) (ReplayResult, bool) {
	if job.Replay == "kernel" {
		return ReplayResult{}, false
	}
	return replayCovers(n, job, v)
}
