package main

import "strings"

func init() {
	register(&Property{ID: "C18",
		Jobs: func(tier string) []*Job {
			cp := f4Job("corpus-preload", "VerifCorpusPreload", 0, []string{"ran"}, []string{"C18-hidden", "C18-prefix"},
				"the repository's example programs (/repo/test/*.rb with a plain invocation and at most 60 lines; quick tier: a sample of 40 chosen by VERIF_SEED, thorough tier: all) split at a solver-chosen top-level statement boundary (both neighbouring rows unindented, complete statements; programs with heredocs left out) into one preload file and the target, run by the real main() on the virtual file system; compared in one path with the analysis of the whole program restricted to the target's rows")
			cp.Config, cp.Budget = "", 80000000
			return []*Job{cp, f4Job("preload", "VerifPreload", 0, []string{"ran"}, []string{"C18-hidden", "C18-prefix"},
				"8 skeleton programs (class + subclass then use, a helper method, diagnostics inside the preloaded part, placeholders left by the preloaded part, instance variables and constants, a mixin, a variable reassigned and a method redefined across chunks) split at top-level boundaries into one preload file (short/long) or two preload files (named in and out of sorted order) plus the target, with and without -i; the real main() with loader.GetPreloadFiles / preload() / evaluationLoop(isLoad) runs on a virtual file system (.ti-loader.json and the preload files); compared in one path with the analysis of the concatenation; leaf kind a solver variable")}
		},
		Custom:    replayPreload,
		Filter:    func(v *Violation) bool { return strings.HasPrefix(v.ID, "C18") },
		Stubs:     append(f4Stubs, "virtual file system: os.ReadFile / os.Open / bufio.NewReader / io.ReadAll / (*os.File).Close are intercepted; os.Args set by the harness"),
		Functions: []string{"ti.preload", "ti.evaluationLoop", "ti/loader.GetPreloadFiles", "ti.getParser", "ti/cmd.ApplyParserFlags"},
		Outside:   "more than 2 preload files, splits inside a definition, preload order permutations",
	})
}
