package main

import "strings"

func init() {
	register(&Property{ID: "C18",
		Jobs: func(tier string) []*Job {
			return []*Job{f4Job("preload", "VerifPreload", 0, []string{"ran"}, []string{"C18-hidden", "C18-prefix"},
				"3 skeleton programs (class + subclass then use, a helper method, diagnostics inside the preloaded part) split at top-level boundaries into one preload file (short/long) or two preload files plus the target; the real preload()/evaluationLoop(isLoad) sequence of main runs on a virtual file system (.ti-loader.json, p0.rb, p1.rb); compared in one path with the analysis of the concatenation; leaf kind a solver variable")}
		},
		Custom:    replayPreload,
		Filter:    func(v *Violation) bool { return strings.HasPrefix(v.ID, "C18") },
		Stubs:     append(f4Stubs, "virtual file system: os.ReadFile / os.Open / bufio.NewReader / io.ReadAll / (*os.File).Close are intercepted; os.Args set by the harness"),
		Functions: []string{"ti.preload", "ti.evaluationLoop", "ti/loader.GetPreloadFiles", "ti.getParser", "ti/cmd.ApplyParserFlags"},
		Outside:   "more than 2 preload files, splits inside a definition, preload order permutations",
	})
}
