package main

import "strings"

func init() {
	register(&Property{ID: "C11",
		Jobs: func(tier string) []*Job {
			n := map[string]int{"quick": 1, "thorough": 2}[tier]
			ci := f4Job("corpus-interfere", "VerifCorpusInterfere", 0, []string{"ran"}, []string{"C11-corpus"},
				"the repository's example programs (/repo/test/*.rb with a plain invocation and at most 60 lines; quick tier: a sample of 40 chosen by VERIF_SEED, thorough tier: all) x one of 4 independent fragments (conditional, array + block, builtin call on a union, hash + index; fresh names, no class or method defined) inserted at a solver-chosen top-level statement boundary (both neighbouring rows unindented, complete statements; programs with heredocs left out); program alone vs program + fragment, outputs equal up to the row shift")
			ci.Config, ci.Budget = "", 80000000
			return []*Job{ci, f4Job("interfere", "VerifInterfere", n, []string{"ran"}, []string{"C11-shift"},
				"host program (22 hosts: if/else narrowing, builtin calls, def+call, class method, do-block, case/in, brace block+elsif, guard clause, modifier-unless, index expressions, splat method, keyword errors, operator assignments, while + case/when, nested index, value-less guard clause, explicit returns, unresolved calls with and without blocks; leaf kinds solver variables) x independent fragment (17, none defines a class or a method: conditional, array literal, builtin call on a union, block, string call, modifier-if, while loop, hash literal + lookup, index read/write, string index, failing builtin call, unless/else, case/when, ternary, ||=, brace block); quick tier: the first 12 x 8 pairs in full and a quarter of the others, thorough: all 306 pairs; x every statement boundary of the host that is not the last statement of its body; host alone vs host+fragment in one path (Snapshot/Restore)")}
		},
		Custom:    replayPair,
		Filter:    func(v *Violation) bool { return strings.HasPrefix(v.ID, "C11") },
		Stubs:     f4Stubs,
		Functions: []string{"(*ti/eval.IfUnless).Evaluation", "ti/eval/method_evaluator.checkAndPropagateArgsForUnionWithReturnT", "(*ti/eval.SquareBracket).Evaluation", "(*ti/parser.Parser).StartParsingExpression", "(*ti/parser.Parser).EndParsingExpression"},
		Outside:   "hosts and fragments outside the listed families; appending whole programs",
	})
	register(&Property{ID: "C06",
		Jobs: func(tier string) []*Job {
			n := 1
			_ = tier
			corpus := f4Job("corpus-layout", "VerifCorpusLayout", 0, []string{"ran"}, []string{"C06-corpus"},
				"the repository's example programs (/repo/test/*.rb with a plain invocation and at most 60 lines; quick tier: a sample of 40 chosen by VERIF_SEED, thorough tier: all) x a blank line or a comment-only line inserted before a solver-chosen row (every row, and after the last); original vs edited program in one path, outputs equal up to the row shift")
			corpus.Config = ""
			corpus.Budget = 80000000
			return []*Job{corpus, f4Job("layout", "VerifLayout", n, []string{"ran"}, []string{"C06-shift"},
				"[job layout] layout edits on the host programs (10; leaf kinds solver variables): a blank line or a comment-only line inserted before every row (top level, class, def, if/elsif/else, case/in, do-block bodies), the trailing newline removed, a newline added inside one or both of two string literals (incl. the identical-content cases); edited vs original program in one path"),
				{Name: "comment-line-n0", Pkg: "ti/parser", Entry: "VerifCommentLine", N: 0, Budget: 200000, Reach: []string{"lexed"}, Asserts: []string{"C06-comment-tokens"}, Replay: "kernel",
					Bound: "empty comment (`#` directly followed by the newline), indented or not: token stream (kinds, texts, rows) of A/#/B equals that of A/blank/B"},
				{Name: "comment-line-n1", Pkg: "ti/parser", Entry: "VerifCommentLine", N: 1, Budget: 200000, Reach: []string{"lexed"}, Asserts: []string{"C06-comment-tokens"}, Replay: "kernel",
					Bound: "comment body of 1 arbitrary rune (solver variable; not newline/NUL/'{')"},
				{Name: "comment-line-n2", Pkg: "ti/parser", Entry: "VerifCommentLine", N: 2, Budget: 200000, Reach: []string{"lexed"}, Asserts: []string{"C06-comment-tokens"}, Replay: "kernel",
					Bound: "comment body of 2 arbitrary runes (solver variables)"},
				{Name: "comment-line-n3", Pkg: "ti/parser", Entry: "VerifCommentLine", N: 3, Budget: 200000, Reach: []string{"lexed"}, Asserts: []string{"C06-comment-tokens"}, Replay: "kernel",
					Bound: "comment body of 3 arbitrary runes (solver variables)"}}
		},
		Custom:    replayPair,
		Filter:    func(v *Violation) bool { return strings.HasPrefix(v.ID, "C06") },
		Stubs:     f4Stubs,
		Functions: []string{"(*ti/parser.Parser).getToken", "(*ti/parser.Parser).Read", "(*ti/lexer.Lexer).skipLineComment", "(*ti/parser.Parser).Fatal"},
		Outside:   "hosts outside the family; several edits at once; comment text other than `# note`",
	})
}
