package main

import "strings"

func init() {
	register(&Property{ID: "C20",
		Jobs: func(tier string) []*Job {
			return []*Job{withBudget(20000000, f4Job("extra-config", "VerifExtraConfig", 0, []string{"ran"}, []string{"C20-same-output"},
				"a program with a user module, class and subclass (leaf kind a solver variable) analysed, in one path, under the core configuration and under core + one extra configuration file loaded by the real loader (5 variants: same short name as the user superclass / subclass / module in another frame, an unrelated class in the Builtin frame, an unrelated class with extends); diagnostics and -i output (flag enumerated) must be identical"))}
		},
		Custom:    replayExtraConfig,
		Filter:    func(v *Violation) bool { return strings.HasPrefix(v.ID, "C20") },
		Stubs:     append(f4Stubs, "virtual file system: the extra configuration file exists only in the engine's VFS; filepath.Glob / os.ReadFile are intercepted so that the second run of the real loader sees exactly that file"),
		Functions: []string{"ti/builtin.loadBuiltinFromJSON", "(*ti/base.T).IsClassIdentifier", "ti/base.getParentMethodT", "(*ti/eval.Class).Evaluation", "ti/base.IsClassDefined"},
		Outside:   "extra files beyond the 5 variants; programs beyond the skeleton",
	})
}
