package main

import "strings"

func init() {
	register(&Property{ID: "C22",
		Jobs: func(tier string) []*Job {
			return []*Job{f4Job("defineinfo", "VerifDefineInfo", 0, []string{"ran"}, []string{"C22-i-pub", "C22-d-pub", "C22-hover"},
				"a class with a public method, def self., a method under a public/private/protected section (enumerated) followed by `public`, a class << self method, a method after the section, and a top-level method with a multi-line signature, preceded by 0-2 blank lines; -i hints and --define records must carry the def row, c/ or i/, and the visibility; --hover with the target row a solver variable over the three call rows must show the called method")}
		},
		Custom:    replayDefineInfo,
		Filter:    func(v *Violation) bool { return strings.HasPrefix(v.ID, "C22") },
		Stubs:     f4Stubs,
		Functions: []string{"ti.setDefineInfos", "ti.appendSignature", "ti/cmd.PrintHover", "ti/cmd.PrintAllDefinitionsForLsp", "(*ti/eval.Def).Evaluation", "(*ti/parser.Parser).SetLastEvaluatedT"},
		Outside:   "endless defs, modules, several classes, hover on rows without a call",
	})
}
