package main

func init() {
	register(&Property{
		ID: "C25",
		Jobs: func(tier string) []*Job {
			n := 3
			if tier == "thorough" {
				n = 5
			}
			return []*Job{
				{Name: "convertArguments", Pkg: "ti/cmd/rbs2json", Entry: "VerifConvertArgs", N: n, Budget: 800000, Reach: []string{"converted", "called"},
					Asserts: []string{"C25-deterministic", "C25-count", "C25-order", "C25-type", "C25-arity"}, Replay: "kernel", Cross: true, Stubs: fmtStubs,
					Bound: sprintf("RBS function type with <=2 required, <=1 optional, optional rest, <=1 trailing positionals, <=2 required and <=2 optional keywords; iteration order of both keyword maps chosen by the solver on each of two conversions; result loaded through builtin.parseArguments and called with <=%d positionals and every subset of the keywords", n)},
				{Name: "convertDeclarations", Pkg: "ti/cmd/rbs2json", Entry: "VerifConvertDecls", N: 0, Budget: 2000000, Reach: []string{"converted"},
					Asserts: []string{"C25-alias-emitted", "C25-alias-signature", "C25-new", "C25-nested", "C25-decl-deterministic"}, Replay: "kernel", Cross: true, Stubs: fmtStubs,
					Bound: "one class declaration with a singleton method and an instance method (named alike or not) of solver-chosen arity 0-2 each, 6 alias shapes (single / chains of 2 and 3 singleton aliases, single / chain of 2 instance aliases, interleaved chains sharing names), initialize, an attribute and a nested class, converted twice by the real convertDeclarations"},
			}
		},
		Functions:   []string{"ti/cmd/rbs2json.convertDeclarations", "ti/cmd/rbs2json.convertMethodDefinition", "ti/cmd/rbs2json.convertArguments", "ti/cmd/rbs2json.convertType", "ti/builtin.parseArguments", "ti/eval/method_evaluator.checkAndPropagateArgs"},
		Assumptions: []string{"the `ruby` child process and JSON decoding are outside: the harness starts from the decoded RBS AST", "Go map iteration order is modelled as an arbitrary permutation chosen independently at each range statement (schedule variable)"},
		Stubs:       []string{"message formatting helpers of the argument checker (as C07)"},
		Outside:     "type mapping beyond class_instance Integer / String / void; writeOutput and the ruby child process; more than 2 keywords of each class; overloaded aliased methods",
	})
}
