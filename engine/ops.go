package main

import (
	"fmt"
	"go/token"
	"go/types"
	"unicode/utf8"

	"golang.org/x/tools/go/ssa"
)

func mkRope(elems []Value, ascii bool) Value {
	allc := true
	for _, x := range elems {
		if _, ok := x.(*Term); ok {
			allc = false
			break
		}
	}
	if allc {
		rs := make([]rune, len(elems))
		for i, x := range elems {
			rs[i] = rune(x.(int64))
		}
		return string(rs)
	}
	return &Rope{elems: append([]Value(nil), elems...), ascii: ascii}
}

func ropeByte(e *Engine, x Value) Value {
	switch x := x.(type) {
	case int64:
		return x
	case *Term:
		return e.ts.Resize(x, 8, false)
	}
	panic("ropeByte")
}

func strElems(s Value) ([]Value, bool) {
	switch s := s.(type) {
	case string:
		var out []Value
		ascii := true
		for _, r := range s {
			if r >= 0x80 {
				ascii = false
			}
			out = append(out, int64(r))
		}
		if !utf8.ValidString(s) {
			ascii = false
		}
		return out, ascii
	case *Rope:
		return s.elems, s.ascii
	}
	panic(fmt.Sprintf("strElems: %T", s))
}

func (e *Engine) toTerm(v Value, w int) *Term {
	switch v := v.(type) {
	case *Term:
		return v
	case int64:
		return e.ts.BV(uint64(v), w)
	case bool:
		return e.ts.Bool(v)
	}
	panic(fmt.Sprintf("toTerm: %T", v))
}

// strEq returns bool or *Term.
func (e *Engine) strEq(a, b Value) Value {
	if _, ok := a.(*ChoiceStr); ok {
		return e.choiceEq(a, b)
	}
	if _, ok := b.(*ChoiceStr); ok {
		return e.choiceEq(a, b)
	}
	if sa, ok := a.(string); ok {
		if sb, ok := b.(string); ok {
			return sa == sb
		}
	}
	ea, _ := strElems(a)
	eb, _ := strElems(b)
	if len(ea) != len(eb) {
		return false
	}
	acc := e.ts.Bool(true)
	for i := range ea {
		acc = e.ts.And(acc, e.ts.Cmp("=", e.toTerm(ea[i], 32), e.toTerm(eb[i], 32)))
	}
	return termOrBool(acc)
}

func termOrBool(t *Term) Value {
	if t.op == "true" {
		return true
	}
	if t.op == "false" {
		return false
	}
	return t
}

func (e *Engine) notV(v Value) Value {
	switch v := v.(type) {
	case bool:
		return !v
	case *Term:
		return termOrBool(e.ts.Not(v))
	}
	panic("notV")
}

func (e *Engine) unop(fr *frame, in *ssa.UnOp, x Value) Value {
	switch in.Op {
	case token.MUL: // load
		p := x.(*Value)
		if p == nil {
			panic(goPanic{kind: "nil-deref", msg: "load through nil pointer", site: e.site(fr, in)})
		}
		return copyVal(*p)
	case token.NOT:
		return e.notV(x)
	case token.SUB:
		switch x := x.(type) {
		case int64:
			return norm(in.Type(), -x)
		case float64:
			return -x
		case *Term:
			return e.ts.Neg(x)
		}
	case token.XOR:
		switch x := x.(type) {
		case int64:
			return norm(in.Type(), ^x)
		case *Term:
			return e.ts.BVNot(x)
		}
	}
	panic(pathEnd{kind: "unsupported", msg: fmt.Sprintf("unop %s on %T", in.Op, x)})
}

func (e *Engine) binop(fr *frame, in ssa.Instruction, op token.Token, t types.Type, x, y Value) Value {
	// equality on non-scalars
	switch op {
	case token.EQL:
		return e.equal(t, x, y)
	case token.NEQ:
		return e.notV(e.equal(t, x, y))
	}
	_, xs := x.(*Term)
	_, ys := y.(*Term)
	if xs || ys {
		return e.symBinop(fr, in, op, t, x, y)
	}
	switch xv := x.(type) {
	case int64:
		yv := y.(int64)
		w, signed := intWidth(t)
		switch op {
		case token.ADD:
			return norm(t, xv+yv)
		case token.SUB:
			return norm(t, xv-yv)
		case token.MUL:
			return norm(t, xv*yv)
		case token.QUO, token.REM:
			if yv == 0 {
				panic(goPanic{kind: "div-zero", msg: "integer divide by zero", site: e.site(fr, in)})
			}
			if signed {
				if op == token.QUO {
					return norm(t, xv/yv)
				}
				return norm(t, xv%yv)
			}
			ux, uy := uint64(xv)&mask(w), uint64(yv)&mask(w)
			if op == token.QUO {
				return norm(t, int64(ux/uy))
			}
			return norm(t, int64(ux%uy))
		case token.AND:
			return norm(t, xv&yv)
		case token.OR:
			return norm(t, xv|yv)
		case token.XOR:
			return norm(t, xv^yv)
		case token.AND_NOT:
			return norm(t, xv&^yv)
		case token.SHL:
			if yv < 0 {
				panic(goPanic{kind: "explicit", msg: "negative shift amount", site: e.site(fr, in)})
			}
			if yv >= 64 {
				return int64(0)
			}
			return norm(t, xv<<uint(yv))
		case token.SHR:
			if yv < 0 {
				panic(goPanic{kind: "explicit", msg: "negative shift amount", site: e.site(fr, in)})
			}
			if signed {
				if yv >= 64 {
					yv = 63
				}
				return norm(t, xv>>uint(yv))
			}
			if yv >= 64 {
				return int64(0)
			}
			return norm(t, int64((uint64(xv)&mask(w))>>uint(yv)))
		case token.LSS, token.LEQ, token.GTR, token.GEQ:
			var lt, eq bool
			if signed {
				lt, eq = xv < yv, xv == yv
			} else {
				lt, eq = uint64(xv) < uint64(yv), xv == yv
			}
			switch op {
			case token.LSS:
				return lt
			case token.LEQ:
				return lt || eq
			case token.GTR:
				return !lt && !eq
			default:
				return !lt
			}
		}
	case float64:
		yv := y.(float64)
		switch op {
		case token.ADD:
			return xv + yv
		case token.SUB:
			return xv - yv
		case token.MUL:
			return xv * yv
		case token.QUO:
			return xv / yv
		case token.LSS:
			return xv < yv
		case token.LEQ:
			return xv <= yv
		case token.GTR:
			return xv > yv
		case token.GEQ:
			return xv >= yv
		}
	case string:
		if yv, ok := y.(string); ok {
			switch op {
			case token.ADD:
				return xv + yv
			case token.LSS:
				return xv < yv
			case token.LEQ:
				return xv <= yv
			case token.GTR:
				return xv > yv
			case token.GEQ:
				return xv >= yv
			}
		}
		if op == token.ADD {
			return e.strConcat(x, y)
		}
		if cy, ok := y.(*ChoiceStr); ok {
			return e.liftStr(cy, func(a string) Value { return e.binop(fr, in, op, t, xv, a) })
		}
	case *Rope, *ChoiceStr:
		if op == token.ADD {
			return e.strConcat(x, y)
		}
		if _, ok := x.(*ChoiceStr); ok {
			if r, ok := e.strOrder(op, x, y); ok {
				return r
			}
		}
	case bool:
		// only == and != are defined on bool, handled above
	}
	panic(pathEnd{kind: "unsupported", msg: fmt.Sprintf("binop %s on %T,%T", op, x, y)})
}

func (e *Engine) strConcat(x, y Value) Value {
	cx, xok := x.(*ChoiceStr)
	cy, yok := y.(*ChoiceStr)
	switch {
	case xok && yok:
		return e.choiceConcat(cx, cy)
	case xok:
		ys, ok := y.(string)
		if !ok {
			panic(pathEnd{kind: "unsupported", msg: "choice + rope"})
		}
		return e.liftStr(cx, func(a string) Value { return a + ys })
	case yok:
		xs, ok := x.(string)
		if !ok {
			panic(pathEnd{kind: "unsupported", msg: "rope + choice"})
		}
		return e.liftStr(cy, func(a string) Value { return xs + a })
	}
	ex, ax := strElems(x)
	ey, ay := strElems(y)
	all := append(append([]Value(nil), ex...), ey...)
	return mkRope(all, ax && ay)
}

func (e *Engine) symBinop(fr *frame, in ssa.Instruction, op token.Token, t types.Type, x, y Value) Value {
	w, signed := intWidth(t)
	a := e.toTerm(x, w)
	var b *Term
	if op == token.SHL || op == token.SHR {
		// shift count has its own type; resize to w (unsigned)
		switch yv := y.(type) {
		case int64:
			b = e.ts.BV(uint64(yv), w)
		case *Term:
			b = e.ts.Resize(yv, w, false)
		}
	} else {
		b = e.toTerm(y, w)
	}
	ts := e.ts
	switch op {
	case token.ADD:
		return ts.Bin("bvadd", a, b)
	case token.SUB:
		return ts.Bin("bvsub", a, b)
	case token.MUL:
		return ts.Bin("bvmul", a, b)
	case token.AND:
		return ts.Bin("bvand", a, b)
	case token.OR:
		return ts.Bin("bvor", a, b)
	case token.XOR:
		return ts.Bin("bvxor", a, b)
	case token.AND_NOT:
		return ts.Bin("bvand", a, ts.BVNot(b))
	case token.SHL:
		return ts.Bin("bvshl", a, b)
	case token.SHR:
		if signed {
			return ts.Bin("bvashr", a, b)
		}
		return ts.Bin("bvlshr", a, b)
	case token.QUO, token.REM:
		z := ts.Cmp("=", b, ts.BV(0, w))
		if e.decide(z) {
			panic(goPanic{kind: "div-zero", msg: "integer divide by zero", site: e.site(fr, in)})
		}
		switch {
		case op == token.QUO && signed:
			return ts.Bin("bvsdiv", a, b)
		case op == token.QUO:
			return ts.Bin("bvudiv", a, b)
		case signed:
			return ts.Bin("bvsrem", a, b)
		default:
			return ts.Bin("bvurem", a, b)
		}
	case token.LSS, token.LEQ, token.GTR, token.GEQ:
		lt, le := "bvult", "bvule"
		if signed {
			lt, le = "bvslt", "bvsle"
		}
		switch op {
		case token.LSS:
			return termOrBool(ts.Cmp(lt, a, b))
		case token.LEQ:
			return termOrBool(ts.Cmp(le, a, b))
		case token.GTR:
			return termOrBool(ts.Cmp(lt, b, a))
		default:
			return termOrBool(ts.Cmp(le, b, a))
		}
	}
	panic(pathEnd{kind: "unsupported", msg: "symbolic binop " + op.String()})
}

func (e *Engine) andV(a, b Value) Value {
	if ab, ok := a.(bool); ok {
		if !ab {
			return false
		}
		return b
	}
	if bb, ok := b.(bool); ok {
		if !bb {
			return false
		}
		return a
	}
	return termOrBool(e.ts.And(a.(*Term), b.(*Term)))
}

// equal returns bool or *Term.
func (e *Engine) equal(t types.Type, x, y Value) Value {
	switch xv := x.(type) {
	case bool:
		switch yv := y.(type) {
		case bool:
			return xv == yv
		case *Term:
			return termOrBool(e.ts.Cmp("=", e.ts.Bool(xv), yv))
		}
	case int64:
		switch yv := y.(type) {
		case int64:
			return xv == yv
		case *Term:
			return termOrBool(e.ts.Cmp("=", e.ts.BV(uint64(xv), yv.w), yv))
		}
	case *Term:
		switch yv := y.(type) {
		case *Term:
			return termOrBool(e.ts.Cmp("=", xv, yv))
		case int64:
			return termOrBool(e.ts.Cmp("=", xv, e.ts.BV(uint64(yv), xv.w)))
		case bool:
			return termOrBool(e.ts.Cmp("=", xv, e.ts.Bool(yv)))
		}
	case float64:
		return xv == y.(float64)
	case string, *Rope, *ChoiceStr:
		return e.strEq(x, y)
	case *Value:
		return xv == y.(*Value)
	case *Map:
		return xv == y.(*Map) // only nil comparisons are legal
	case Slice:
		ys := y.(Slice)
		return xv.arr == nil && ys.arr == nil // only nil comparisons are legal
	case *ssa.Function:
		yf, ok := y.(*ssa.Function)
		return ok && xv == yf
	case *Closure:
		_, isFn := y.(*ssa.Function)
		if isFn {
			return false
		}
		return xv == y.(*Closure)
	case Struct:
		ys := y.(Struct)
		st := t.Underlying().(*types.Struct)
		var acc Value = true
		for i := range xv {
			acc = e.andV(acc, e.equal(st.Field(i).Type(), xv[i], ys[i]))
		}
		return acc
	case Array:
		ya := y.(Array)
		at := t.Underlying().(*types.Array)
		var acc Value = true
		for i := range xv {
			acc = e.andV(acc, e.equal(at.Elem(), xv[i], ya[i]))
		}
		return acc
	case Iface:
		yi := y.(Iface)
		if xv.t == nil || yi.t == nil {
			return xv.t == nil && yi.t == nil
		}
		if !types.Identical(xv.t, yi.t) {
			return false
		}
		return e.equal(xv.t, xv.v, yi.v)
	case nil:
		return y == nil
	}
	panic(fmt.Sprintf("equal: %T vs %T", x, y))
}

func (e *Engine) conv(dst, src types.Type, x Value) Value {
	ud, us := dst.Underlying(), src.Underlying()
	switch ud := ud.(type) {
	case *types.Basic:
		switch {
		case ud.Info()&types.IsInteger != 0:
			w, _ := intWidth(ud)
			switch xv := x.(type) {
			case int64:
				return norm(ud, xv)
			case float64:
				return norm(ud, int64(xv))
			case *Term:
				_, ssig := intWidth(us)
				return e.ts.Resize(xv, w, ssig)
			}
		case ud.Info()&types.IsFloat != 0:
			switch xv := x.(type) {
			case int64:
				if _, s := intWidth(us); !s {
					return float64(uint64(xv))
				}
				return float64(xv)
			case float64:
				if ud.Kind() == types.Float32 {
					return float64(float32(xv))
				}
				return xv
			}
		case ud.Info()&types.IsString != 0:
			switch xv := x.(type) {
			case string:
				return xv
			case *Rope:
				return xv
			case int64: // rune -> string
				return string(rune(xv))
			case *Term:
				return &Rope{elems: []Value{e.ts.Resize(xv, 32, false)}}
			case Slice:
				elT := us.(*types.Slice).Elem().Underlying().(*types.Basic)
				elems := make([]Value, xv.len)
				for i := 0; i < xv.len; i++ {
					elems[i] = xv.arr.elems[xv.off+i]
				}
				if elT.Kind() == types.Int32 { // []rune
					return mkRope(elems, false)
				}
				// []byte
				bs := make([]byte, 0, len(elems))
				for _, el := range elems {
					c, ok := el.(int64)
					if !ok {
						return &Rope{elems: elems, ascii: true}
					}
					bs = append(bs, byte(c))
				}
				return string(bs)
			}
		case ud.Kind() == types.UnsafePointer:
			return x
		}
	case *types.Slice:
		// string -> []byte / []rune
		el := ud.Elem().Underlying().(*types.Basic)
		switch xv := x.(type) {
		case string:
			var elems []Value
			if el.Kind() == types.Int32 {
				for _, r := range xv {
					elems = append(elems, int64(r))
				}
			} else {
				for i := 0; i < len(xv); i++ {
					elems = append(elems, int64(xv[i]))
				}
			}
			return Slice{arr: &Backing{elems: elems}, len: len(elems), cap: len(elems)}
		case *Rope:
			if el.Kind() != types.Int32 && !e.ropeASCII(xv) {
				panic(pathEnd{kind: "unsupported", msg: "[]byte of non-ascii rope"})
			}
			elems := append([]Value(nil), xv.elems...)
			return Slice{arr: &Backing{elems: elems}, len: len(elems), cap: len(elems)}
		}
	case *types.Pointer:
		return x
	}
	panic(pathEnd{kind: "unsupported", msg: fmt.Sprintf("conv %s -> %s (%T)", src, dst, x)})
}

// ---- maps ----

func (e *Engine) keyEq(a, b Value) Value {
	switch a.(type) {
	case string, *Rope, *ChoiceStr:
		return e.strEq(a, b)
	}
	return e.keyEqual(a, b)
}

// keyEqual compares map keys structurally without static types.
func (e *Engine) keyEqual(a, b Value) Value {
	switch av := a.(type) {
	case Struct:
		bv := b.(Struct)
		var acc Value = true
		for i := range av {
			acc = e.andV(acc, e.keyEq(av[i], bv[i]))
			if ab, ok := acc.(bool); ok && !ab {
				return false
			}
		}
		return acc
	case Array:
		bv := b.(Array)
		var acc Value = true
		for i := range av {
			acc = e.andV(acc, e.keyEq(av[i], bv[i]))
			if ab, ok := acc.(bool); ok && !ab {
				return false
			}
		}
		return acc
	}
	return e.equal(nil, a, b)
}

// mapFind returns the index of the entry matching key, or -1. May fork.
func (e *Engine) mapFind(m *Map, key Value) int {
	if enc, ok := keyEnc(key); ok {
		if i, ok := m.index[enc]; ok && !m.entries[i].deleted {
			return i
		}
		for _, i := range m.sym {
			en := m.entries[i]
			if en.deleted {
				continue
			}
			c := e.keyEq(en.key, key)
			if cb, ok := c.(bool); ok {
				if cb {
					return i
				}
				continue
			}
			if e.decide(c.(*Term)) {
				return i
			}
		}
		return -1
	}
	// symbolic key with finitely many alternatives: hash lookups per alternative
	if alts, ok := e.keyAlternatives(key); ok && len(m.sym) == 0 {
		for _, a := range alts {
			enc, _ := keyEnc(a.key)
			i, hit := m.index[enc]
			if !hit || m.entries[i].deleted {
				continue
			}
			if a.cond.op == "true" || e.decide(a.cond) {
				return i
			}
		}
		return -1
	}
	// symbolic key: compare against all live entries
	for i, en := range m.entries {
		if en.deleted {
			continue
		}
		c := e.keyEq(en.key, key)
		if cb, ok := c.(bool); ok {
			if cb {
				return i
			}
			continue
		}
		if e.decide(c.(*Term)) {
			return i
		}
	}
	return -1
}

func (e *Engine) lookup(fr *frame, in *ssa.Lookup) Value {
	x := fr.get(e, in.X)
	if c, ok := x.(*ChoiceStr); ok {
		x = e.concretize(c)
	}
	switch x := x.(type) {
	case string, *Rope:
		// string index (byte)
		idx := e.concreteInt(fr.get(e, in.Index), "index")
		switch s := x.(type) {
		case string:
			if idx < 0 || idx >= int64(len(s)) {
				panic(goPanic{kind: "index", msg: "string index", site: e.site(fr, in)})
			}
			return int64(s[idx])
		case *Rope:
			if !e.ropeASCII(s) {
				panic(pathEnd{kind: "unsupported", msg: "byte index of non-ascii rope"})
			}
			if idx < 0 || idx >= int64(len(s.elems)) {
				panic(goPanic{kind: "index", msg: "string index", site: e.site(fr, in)})
			}
			return ropeByte(e, s.elems[idx])
		}
	case *Map:
		vt := in.X.Type().Underlying().(*types.Map).Elem()
		var v Value
		ok := false
		if x != nil {
			if i := e.mapFind(x, fr.get(e, in.Index)); i >= 0 {
				v = copyVal(x.entries[i].val)
				ok = true
			}
		}
		if !ok {
			v = zero(vt)
		}
		if in.CommaOk {
			return Tuple{v, ok}
		}
		return v
	}
	panic(fmt.Sprintf("lookup on %T", x))
}

func (e *Engine) mapUpdate(m *Map, key, val Value) {
	i := e.mapFind(m, key)
	if i >= 0 {
		en := m.entries[i]
		old := en.val
		e.undo = append(e.undo, undoRec{old: func() { en.val = old }})
		en.val = val
		return
	}
	en := &mapEntry{key: key, val: val}
	idx := len(m.entries)
	m.entries = append(m.entries, en)
	m.n++
	enc, conc := keyEnc(key)
	if conc {
		m.index[enc] = idx
	} else {
		m.sym = append(m.sym, idx)
	}
	e.undo = append(e.undo, undoRec{old: func() {
		m.entries = m.entries[:idx]
		m.n--
		if conc {
			delete(m.index, enc)
		} else {
			m.sym = m.sym[:len(m.sym)-1]
		}
	}})
}

func (e *Engine) mapDelete(m *Map, key Value) {
	if m == nil {
		return
	}
	i := e.mapFind(m, key)
	if i < 0 {
		return
	}
	en := m.entries[i]
	en.deleted = true
	m.n--
	enc, conc := keyEnc(en.key)
	if conc {
		delete(m.index, enc)
	}
	e.undo = append(e.undo, undoRec{old: func() {
		en.deleted = false
		m.n++
		if conc {
			m.index[enc] = i
		}
	}})
}

// ---- iterators ----

type Iter struct {
	kind  int // 0 string, 1 map
	str   Value
	pos   int
	m     *Map
	snap  []*mapEntry
}

func (e *Engine) rangeIter(x Value, t types.Type) Value {
	if c, ok := x.(*ChoiceStr); ok {
		x = e.concretize(c)
	}
	switch x := x.(type) {
	case string, *Rope:
		return &Iter{kind: 0, str: x}
	case *Map:
		it := &Iter{kind: 1, m: x}
		if x != nil {
			it.snap = append(it.snap, x.entries...)
			if (x.flip || e.flipHere) && len(it.snap) > 1 && e.decide(e.freshVar("ord", 0)) {
				for i, j := 0, len(it.snap)-1; i < j; i, j = i+1, j-1 {
					it.snap[i], it.snap[j] = it.snap[j], it.snap[i]
				}
			}
		}
		return it
	}
	panic(fmt.Sprintf("rangeIter %T", x))
}

func (it *Iter) next(e *Engine) Value {
	switch it.kind {
	case 0:
		switch s := it.str.(type) {
		case string:
			if it.pos >= len(s) {
				return Tuple{false, int64(0), int64(0)}
			}
			r, n := utf8.DecodeRuneInString(s[it.pos:])
			p := it.pos
			it.pos += n
			return Tuple{true, int64(p), int64(r)}
		case *Rope:
			if !e.ropeASCII(s) {
				panic(pathEnd{kind: "unsupported", msg: "range over non-ascii rope"})
			}
			if it.pos >= len(s.elems) {
				return Tuple{false, int64(0), int64(0)}
			}
			p := it.pos
			it.pos++
			el := s.elems[p]
			if t, ok := el.(*Term); ok {
				el = e.ts.Resize(t, 32, false)
			}
			return Tuple{true, int64(p), el}
		}
	case 1:
		if it.m != nil && it.m.anyOrder {
			// schedule variable: pick any remaining live entry next
			var live []int
			for i, en := range it.snap {
				if en != nil && !en.deleted {
					live = append(live, i)
				}
			}
			if len(live) == 0 {
				return Tuple{false, nil, nil}
			}
			pick := live[len(live)-1]
			for _, i := range live[:len(live)-1] {
				if e.decide(e.freshVar("ord", 0)) {
					pick = i
					break
				}
			}
			en := it.snap[pick]
			it.snap[pick] = nil
			return Tuple{true, copyVal(en.key), copyVal(en.val)}
		}
		for it.pos < len(it.snap) {
			en := it.snap[it.pos]
			it.pos++
			if en.deleted {
				continue
			}
			return Tuple{true, copyVal(en.key), copyVal(en.val)}
		}
		return Tuple{false, nil, nil}
	}
	panic("iter")
}

// ---- builtins ----

func (e *Engine) callBuiltin(fr *frame, b *ssa.Builtin, args []Value, in ssa.Instruction) Value {
	switch b.Name() {
	case "len":
		switch x := args[0].(type) {
		case string:
			return int64(len(x))
		case *Rope:
			if !e.ropeASCII(x) {
				panic(pathEnd{kind: "unsupported", msg: "len of non-ascii rope"})
			}
			return int64(len(x.elems))
		case *ChoiceStr:
			return e.liftStr(x, func(a string) Value { return int64(len(a)) })
		case Slice:
			return int64(x.len)
		case *Map:
			if x == nil {
				return int64(0)
			}
			return int64(x.n)
		case Array:
			return int64(len(x))
		case *Value:
			return int64(len((*x).(Array)))
		}
	case "min", "max":
		// integers (possibly symbolic) and concrete strings
		isMax := b.Name() == "max"
		acc := args[0]
		for _, y := range args[1:] {
			switch a := acc.(type) {
			case string:
				if (y.(string) > a) == isMax && y.(string) != a {
					acc = y
				}
			default:
				ai, aok := acc.(int64)
				yi, yok := y.(int64)
				if aok && yok {
					if (yi > ai) == isMax && yi != ai {
						acc = y
					}
					continue
				}
				at, yt := e.toTerm(acc, 64), e.toTerm(y, 64)
				c := e.ts.Cmp("bvslt", at, yt)
				if isMax {
					acc = e.ts.Ite(c, yt, at)
				} else {
					acc = e.ts.Ite(c, at, yt)
				}
			}
		}
		return acc
	case "cap":
		switch x := args[0].(type) {
		case Slice:
			return int64(x.cap)
		case Array:
			return int64(len(x))
		}
	case "append":
		s := args[0].(Slice)
		var add []Value
		switch y := args[1].(type) {
		case Slice:
			for i := 0; i < y.len; i++ {
				add = append(add, copyVal(y.arr.elems[y.off+i]))
			}
		case string:
			for i := 0; i < len(y); i++ {
				add = append(add, int64(y[i]))
			}
		default:
			panic(fmt.Sprintf("append %T", y))
		}
		if len(add) == 0 {
			return s
		}
		n := s.len + len(add)
		if n <= s.cap {
			for i, v := range add {
				e.rawStore(&s.arr.elems[s.off+s.len+i], v)
			}
			return Slice{arr: s.arr, off: s.off, len: n, cap: s.cap}
		}
		var esz int64 = 8
		if in != nil {
			if ci, ok := in.(*ssa.Call); ok {
				if st, ok := ci.Type().Underlying().(*types.Slice); ok {
					esz = sizes.Sizeof(st.Elem())
				}
			}
		}
		nc := growCap(s.cap, n, esz)
		el := make([]Value, nc)
		for i := 0; i < s.len; i++ {
			el[i] = copyVal(s.arr.elems[s.off+i])
		}
		copy(el[s.len:], add)
		var zt types.Type
		if in != nil {
			if ci, ok := in.(*ssa.Call); ok {
				if st, ok := ci.Type().Underlying().(*types.Slice); ok {
					zt = st.Elem()
				}
			}
		}
		for i := n; i < nc; i++ {
			if zt != nil {
				el[i] = zero(zt)
			}
		}
		return Slice{arr: &Backing{elems: el}, off: 0, len: n, cap: nc}
	case "copy":
		d := args[0].(Slice)
		var src []Value
		switch y := args[1].(type) {
		case Slice:
			for i := 0; i < y.len; i++ {
				src = append(src, copyVal(y.arr.elems[y.off+i]))
			}
		case string:
			for i := 0; i < len(y); i++ {
				src = append(src, int64(y[i]))
			}
		}
		n := len(src)
		if d.len < n {
			n = d.len
		}
		for i := 0; i < n; i++ {
			e.store(&d.arr.elems[d.off+i], src[i])
		}
		return int64(n)
	case "delete":
		e.mapDelete(args[0].(*Map), args[1])
		return nil
	case "panic":
		panic(goPanic{kind: "explicit", msg: ifaceString(args[0])})
	case "print", "println":
		return nil
	case "ssa:wrapnilchk":
		if p, ok := args[0].(*Value); ok && p == nil {
			panic(goPanic{kind: "nil-deref", msg: "value method called on nil pointer"})
		}
		return args[0]
	}
	panic(pathEnd{kind: "unsupported", msg: "builtin " + b.Name() + fmt.Sprintf(" %T", args[0])})
}

var sizes = types.SizesFor("gc", "amd64")

var sizeClasses = []int64{0, 8, 16, 24, 32, 48, 64, 80, 96, 112, 128, 144, 160, 176, 192, 208, 224, 240, 256, 288, 320, 352, 384, 416, 448, 480, 512, 576, 640, 704, 768, 896, 1024, 1152, 1280, 1408, 1536, 1792, 2048, 2304, 2688, 3072, 3200, 3456, 4096, 4864, 5376, 6144, 6528, 6784, 6912, 8192, 9472, 9728, 10240, 10880, 12288, 13568, 14336, 16384, 18432, 19072, 20480, 21760, 24576, 27264, 28672, 32768}

func roundupsize(n int64) int64 {
	for _, c := range sizeClasses {
		if c >= n {
			return c
		}
	}
	return (n + 8191) &^ 8191
}

// growCap mirrors runtime.growslice / nextslicecap (Go 1.20+).
func growCap(oldCap, newLen int, esz int64) int {
	newcap := oldCap
	doublecap := newcap + newcap
	if newLen > doublecap {
		newcap = newLen
	} else {
		const threshold = 256
		if oldCap < threshold {
			newcap = doublecap
		} else {
			for newcap < newLen {
				newcap += (newcap + 3*threshold) >> 2
			}
		}
	}
	if esz == 0 {
		return newcap
	}
	mem := roundupsize(int64(newcap) * esz)
	return int(mem / esz)
}

// ropeASCII reports whether every element of r is provably < 0x80 under the current path
// condition (then byte and rune positions coincide). The answer is cached on the rope.
func (e *Engine) ropeASCII(r *Rope) bool {
	if r.ascii {
		return true
	}
	for _, el := range r.elems {
		switch el := el.(type) {
		case int64:
			if el >= 0x80 || el < 0 {
				return false
			}
		case *Term:
			c := e.simplify(e.ts.Cmp("bvult", el, e.ts.BV(0x80, el.w)))
			if c.op == "true" {
				continue
			}
			if c.op == "false" {
				return false
			}
			if e.asciiProven[el.id] {
				continue
			}
			if e.check(e.ts.Not(c)) != "unsat" {
				return false
			}
			e.asciiProven[el.id] = true
		}
	}
	r.ascii = true
	return true
}

// strOrder lifts <, <=, >, >= over (choice) strings.
func (e *Engine) strOrder(op token.Token, x, y Value) (Value, bool) {
	var f func(a, b string) bool
	switch op {
	case token.LSS:
		f = func(a, b string) bool { return a < b }
	case token.LEQ:
		f = func(a, b string) bool { return a <= b }
	case token.GTR:
		f = func(a, b string) bool { return a > b }
	case token.GEQ:
		f = func(a, b string) bool { return a >= b }
	default:
		return nil, false
	}
	if _, ok := x.(*Rope); ok {
		return nil, false
	}
	if _, ok := y.(*Rope); ok {
		return nil, false
	}
	return e.liftBool2(x, y, f), true
}
