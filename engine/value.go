package main

import (
	"fmt"
	"go/constant"
	"go/types"
	"strings"

	"golang.org/x/tools/go/ssa"
)

// Value is one of:
//   bool, int64 (every integer type; bit pattern normalised to its static type), float64,
//   string, *Rope, *Term (symbolic bool/int), *Value (pointer; typed nil pointer = (*Value)(nil)),
//   Struct, Array, Slice, *Map (nil map = (*Map)(nil)), Iface, Tuple,
//   *ssa.Function, *Closure, *ssa.Builtin, *Iter, nil (only transiently)
type Value interface{}

type Struct []Value
type Array []Value
type Tuple []Value

type Backing struct{ elems []Value }

type Slice struct {
	arr           *Backing
	off, len, cap int
}

type Iface struct {
	t types.Type // nil => nil interface
	v Value
}

type Closure struct {
	Fn  *ssa.Function
	Env []Value
}

// Rope is a string whose elements are runes, some symbolic. If ascii is true every element
// is known (< 0x80) so byte and rune positions coincide.
type Rope struct {
	elems []Value // int64 (rune) or *Term (width 32)
	ascii bool
}

func (r *Rope) String() string {
	var sb strings.Builder
	for _, e := range r.elems {
		switch e := e.(type) {
		case int64:
			sb.WriteRune(rune(e))
		case *Term:
			sb.WriteString("<" + e.SMT() + ">")
		}
	}
	return sb.String()
}

type mapEntry struct {
	key     Value
	val     Value
	deleted bool
}

type Map struct {
	entries []*mapEntry
	index   map[string]int // concrete key encoding -> entries index
	sym     []int          // indices of entries with symbolic keys
	n       int
	anyOrder bool
	flip     bool // each range statement iterates forward or backward (schedule variable)
}

func keyEnc(k Value) (string, bool) {
	switch k := k.(type) {
	case string:
		return "s" + k, true
	case int64:
		return fmt.Sprintf("i%d", k), true
	case bool:
		if k {
			return "T", true
		}
		return "F", true
	case float64:
		return fmt.Sprintf("f%v", k), true
	case Struct:
		var sb strings.Builder
		sb.WriteString("{")
		for _, f := range k {
			e, ok := keyEnc(f)
			if !ok {
				return "", false
			}
			fmt.Fprintf(&sb, "%d:%s,", len(e), e)
		}
		sb.WriteString("}")
		return sb.String(), true
	case Array:
		var sb strings.Builder
		sb.WriteString("[")
		for _, f := range k {
			e, ok := keyEnc(f)
			if !ok {
				return "", false
			}
			fmt.Fprintf(&sb, "%d:%s,", len(e), e)
		}
		sb.WriteString("]")
		return sb.String(), true
	case *Value:
		return fmt.Sprintf("p%p", k), true
	case Iface:
		if k.t == nil {
			return "nilif", true
		}
		e, ok := keyEnc(k.v)
		return "if(" + k.t.String() + ")" + e, ok
	}
	return "", false
}

func zero(t types.Type) Value {
	switch t := t.Underlying().(type) {
	case *types.Basic:
		switch {
		case t.Kind() == types.UnsafePointer:
			return (*Value)(nil)
		case t.Info()&types.IsBoolean != 0:
			return false
		case t.Info()&types.IsInteger != 0:
			return int64(0)
		case t.Info()&types.IsFloat != 0:
			return float64(0)
		case t.Info()&types.IsString != 0:
			return ""
		case t.Kind() == types.UntypedNil:
			return nil
		}
		panic("zero: basic " + t.String())
	case *types.Pointer:
		return (*Value)(nil)
	case *types.Slice:
		return Slice{}
	case *types.Map:
		return (*Map)(nil)
	case *types.Interface:
		return Iface{}
	case *types.Signature:
		return (*ssa.Function)(nil)
	case *types.Struct:
		s := make(Struct, t.NumFields())
		for i := range s {
			s[i] = zero(t.Field(i).Type())
		}
		return s
	case *types.Array:
		a := make(Array, t.Len())
		for i := range a {
			a[i] = zero(t.Elem())
		}
		return a
	case *types.Chan:
		return nil
	case *types.Tuple:
		if t.Len() == 1 {
			return zero(t.At(0).Type())
		}
		tu := make(Tuple, t.Len())
		for i := range tu {
			tu[i] = zero(t.At(i).Type())
		}
		return tu
	}
	panic("zero: " + t.String())
}

// Chan: an unbounded FIFO (sequential goroutine model, see *ssa.Go in interp.go).
type Chan struct{ buf []Value }

func copyVal(v Value) Value {
	switch v := v.(type) {
	case Struct:
		c := make(Struct, len(v))
		for i, f := range v {
			c[i] = copyVal(f)
		}
		return c
	case Array:
		c := make(Array, len(v))
		for i, f := range v {
			c[i] = copyVal(f)
		}
		return c
	}
	return v
}

func intWidth(t types.Type) (w int, signed bool) {
	b := t.Underlying().(*types.Basic)
	switch b.Kind() {
	case types.Int8:
		return 8, true
	case types.Int16:
		return 16, true
	case types.Int32:
		return 32, true
	case types.Int64, types.Int, types.UntypedInt, types.UntypedRune:
		return 64, true
	case types.Uint8:
		return 8, false
	case types.Uint16:
		return 16, false
	case types.Uint32:
		return 32, false
	case types.Uint64, types.Uint, types.Uintptr:
		return 64, false
	}
	panic("intWidth: " + t.String())
}

func isInt(t types.Type) bool {
	b, ok := t.Underlying().(*types.Basic)
	return ok && b.Info()&types.IsInteger != 0
}

// norm normalises v to the width/signedness of t.
func norm(t types.Type, v int64) int64 {
	w, s := intWidth(t)
	if w == 64 {
		return v
	}
	u := uint64(v) & mask(w)
	if s {
		return sext(u, w)
	}
	return int64(u)
}

func constValue(c *ssa.Const) Value {
	if c.Value == nil {
		return zero(c.Type())
	}
	t := c.Type().Underlying()
	if b, ok := t.(*types.Basic); ok {
		switch {
		case b.Info()&types.IsBoolean != 0:
			return constant.BoolVal(c.Value)
		case b.Info()&types.IsInteger != 0:
			if i, ok := constant.Int64Val(constant.ToInt(c.Value)); ok {
				return norm(t, i)
			}
			u, _ := constant.Uint64Val(constant.ToInt(c.Value))
			return norm(t, int64(u))
		case b.Info()&types.IsFloat != 0:
			f, _ := constant.Float64Val(c.Value)
			return f
		case b.Info()&types.IsString != 0:
			if c.Value.Kind() == constant.String {
				return constant.StringVal(c.Value)
			}
			i, _ := constant.Int64Val(c.Value)
			return string(rune(i))
		}
	}
	panic(fmt.Sprintf("constValue: %v : %v", c, c.Type()))
}
var overlayFiles = map[string][]byte{}

func sprintf(f string, a ...interface{}) string { return fmt.Sprintf(f, a...) }
