package main

import "strings"

func init() {
	register(&Property{ID: "C19",
		Jobs: func(tier string) []*Job {
			return []*Job{f4Job("config-order", "VerifConfigOrder", 0, []string{"ran"}, []string{"C19-same-output"},
				"three generated class declarations (parent with an overloaded method, child that extends it and re-declares the method, grandchild) loaded by the real loader on a virtual file system in the reference file order and in each of the 5 other orders (files renamed), or with the child's declarations split over two files (after the parent / around the parent, either part first); a probe program with one argument kind a solver variable must print the same output")}
		},
		Custom:    replayConfigOrder,
		Filter:    func(v *Violation) bool { return strings.HasPrefix(v.ID, "C19") },
		Stubs:     append(f4Stubs, "virtual file system for .ti-config (filepath.Glob / os.ReadFile intercepted); the generated files are loaded on top of the core configuration loaded at init"),
		Functions: []string{"ti/builtin.loadBuiltinFromJSON", "(*ti/builtin.defineBuiltinMethod).defineBuiltinInstanceMethod", "(*ti/builtin.defineBuiltinMethod).defineBuiltinStaticMethod", "ti/base.GetMethodT", "ti/base.GenId"},
		Outside:   "configurations other than the generated three-class one; permutations of the shipped configuration's own files",
		Assumptions: []string{"the JSON text of a configuration must be concrete, so layouts are enumerated (8 variants); the solver's share is the probe's argument kind and the output equality (weak claim, as stated in DESIGN.md §4)"},
	})
}
