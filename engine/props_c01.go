package main

import "strings"

func fragJobs(tier string) []*Job {
	b := 5000000
	mk := func(name, entry string, n int, bound string) *Job {
		return &Job{Name: name, Pkg: "ti", Entry: entry, N: n, Budget: b, MaxDepth: 300, Reach: []string{"ran"}, Asserts: []string{"C01-output-lines"}, Replay: "program", Config: "core", Bound: bound + "; configuration: core subset of the shipped test configuration (19 files: array, hash, integer, string, ... without device/ActiveRecord/test-only classes)"}
	}
	js := []*Job{
		mk("top-full-k1", "VerifFragTop", 1, "every text of <=1 fragment from the full alphabet (~125 fragments), with/without trailing newline, `ti f` and `ti f -i` (flag symbolic)"),
		mk("top-core-k2", "VerifFragCore", 2, "every text of <=2 fragments from the reduced alphabet (36 fragments) joined by \"\" or \" \", with/without trailing newline"),
		mk("ctx-full-k1", "VerifFragCtx", 1, "15 context prefixes (open class/def/block/case/if, typed receivers followed by `.` or `[`) + <=1 fragment from the full alphabet"),
	}
	cp := mk("corpus-prefixes", "VerifCorpusPrefix", 0, "the repository's example programs (/repo/test/*.rb with a plain invocation and at most 60 lines; quick tier: a sample of 40 chosen by VERIF_SEED, thorough tier: all): every line-prefix, with/without the final newline, `ti f` and `ti f -i`")
	cp.Config, cp.Budget = "", 30000000
	cp.Bound = strings.Replace(cp.Bound, "; configuration: core subset", "; FULL shipped test configuration (the text after this sentence applies to the other jobs); configuration: core subset", 1)
	if tier == "thorough" {
		js = append(js, cp, // line-prefixes of real programs run long (unterminated constructs): thorough tier only
			mk("top-full-k2", "VerifFragTop", 2, "every text of <=2 fragments from the full alphabet joined by \"\" or \" \""),
			mk("ctx-core-k2", "VerifFragCtxCore", 2, "15 context prefixes + <=2 fragments from the reduced alphabet"),
		)
	}
	return js
}

func init() {
	stubs := []string{"os.Exit inside evaluationLoop ends the run normally (status 0) and the harness inspects the captured stdout", "fmt.Println: captured"}
	outside := "texts longer than the stated fragment counts; byte strings not composed of the alphabet's fragments (covered to 3-4 runes by C03); preload files; the real goroutine + 500 ms watchdog"
	fns := []string{"ti.evaluationLoop", "(*ti/eval.Evaluator).Eval", "(*ti/parser.Parser).Read", "(*ti/lexer.Lexer).Advance", "every ti/eval Evaluation method and ti/eval/method_evaluator strategy reached"}
	register(&Property{ID: "C01", Jobs: fragJobs, Stubs: stubs, Outside: outside, Functions: fns,
		Filter: func(v *Violation) bool { return strings.HasPrefix(v.Kind, "panic") || v.Kind == "assert" }})
	register(&Property{ID: "C02", Stubs: stubs, Outside: outside, Functions: fns,
		Jobs: func(tier string) []*Job {
			// F1 half: the lexer/parser loops on every rune string up to N (shared with C03)
			var js []*Job
			for _, j := range properties["C03"].Jobs(tier) {
				if j.Name != "read-n4" { // 30 min on its own; it stays in C03's thorough tier
					j.Cross = false // the cross-solver repetition of these jobs belongs to C03
					js = append(js, j)
				}
			}
			return append(js, fragJobs(tier)...)
		},
		Filter: func(v *Violation) bool { return v.Kind == "budget" }})
}
