package main

import (
	"encoding/json"
	"fmt"
	"math/rand"
	"os"
	"path/filepath"
	"regexp"
	"sort"
	"strconv"
	"strings"
	"sync"
	"time"

	"golang.org/x/tools/go/ssa"
)

// Auxiliary "golden" jobs. /repo/test holds 585 example programs, each with the output its
// maintainers expect (test/<name>_test.go). The pinned test command never builds ../ti, so
// those expectations are never compared (the tests whose expectation is empty pass
// vacuously). A golden job runs the example programs CONCRETELY through the symbolic executor
// (no symbolic inputs: one path per program) and compares, per property, the part of the
// output the property is about with the maintainers' expectation:
//
//	types      lines printed by `dbtp` rows: the reported type must be the expected one
//	diag-miss  rows for which a diagnostic is expected must have one (definite misuse reported)
//	diag-extra rows without an expected diagnostic must have none (no false alarm)
//
// These jobs are NOT the deciding method of any property (the deciding step of every check is
// the solver's verdict over the symbolic jobs); they are listed separately in the evidence
// ("auxiliary_concrete_jobs"). They exist because a change to /repo that alters the analysis
// of one of the maintainers' own examples is, for the properties about inferred types and
// diagnostics, a violation with a ready-made witness.
type GoldenSpec struct {
	Mode   string         // types | diag-miss | diag-extra
	Filter *regexp.Regexp // only programs whose source matches (nil: all)
	ID     string         // assertion id of the reports (e.g. C09-golden)
	Label  string         // class prefix, e.g. "C09/golden-type-differs"
}

type goldenCase struct {
	name     string // "./0081a0e2.rb"
	path     string
	src      string
	expected string
}

var goldenOnce sync.Once
var goldenCases []goldenCase

// loadGoldens parses test/*_test.go: the command line and the expected output. Only the plain
// invocations (`ti ./x.rb`, 568 of 585) are used.
func loadGoldens() []goldenCase {
	goldenOnce.Do(func() {
		files, _ := filepath.Glob(filepath.Join(repoDir, "test", "*_test.go"))
		sort.Strings(files)
		reCmd := regexp.MustCompile(`exec\.Command\("\.\./ti", ([^\n]*)\)\n`)
		reStr := regexp.MustCompile("\"((?:[^\"\\\\]|\\\\.)*)\"")
		reExp := regexp.MustCompile("expectedOutput := (`[^`]*`|\"(?:[^\"\\\\]|\\\\.)*\")")
		for _, f := range files {
			b, err := os.ReadFile(f)
			if err != nil {
				continue
			}
			m := reCmd.FindStringSubmatch(string(b))
			e := reExp.FindStringSubmatch(string(b))
			if m == nil || e == nil {
				continue
			}
			args := reStr.FindAllStringSubmatch(m[1], -1)
			if len(args) != 1 {
				continue // invocation with flags
			}
			name := args[0][1]
			exp := e[1]
			if exp[0] == '`' {
				exp = exp[1 : len(exp)-1]
			} else {
				var s string
				if json.Unmarshal([]byte(exp), &s) != nil {
					if u, err := strconv.Unquote(exp); err == nil {
						s = u
					} else {
						continue
					}
				}
				exp = s
			}
			p := filepath.Join(repoDir, "test", strings.TrimPrefix(name, "./"))
			src, err := os.ReadFile(p)
			if err != nil {
				continue
			}
			goldenCases = append(goldenCases, goldenCase{name: name, path: p, src: string(src), expected: exp})
		}
	})
	return goldenCases
}

var reDbtpRow = regexp.MustCompile(`(?m)^\s*dbtp\b`)

// goldenSplit separates an output into type lines (rows holding a dbtp statement) and
// diagnostic rows (every other `file:::row:::text` line).
func goldenSplit(src, out, name string) (types map[int][]string, diagRows map[int]bool, other []string) {
	dbtpRows := map[int]bool{}
	for i, l := range strings.Split(src, "\n") {
		if reDbtpRow.MatchString(l) || strings.Contains(l, " dbtp ") {
			dbtpRows[i+1] = true
		}
	}
	types, diagRows = map[int][]string{}, map[int]bool{}
	for _, l := range strings.Split(strings.TrimSpace(out), "\n") {
		if l == "" {
			continue
		}
		parts := strings.SplitN(l, ":::", 3)
		if len(parts) < 3 || parts[0] != name {
			other = append(other, l)
			continue
		}
		row, err := strconv.Atoi(parts[1])
		if err != nil {
			other = append(other, l)
			continue
		}
		if dbtpRows[row] && isTypeRendering(parts[2]) {
			types[row] = append(types[row], parts[2])
		} else {
			diagRows[row] = true
		}
	}
	return
}

var reTypeRendering = regexp.MustCompile(`^[A-Za-z][A-Za-z0-9_:]*(<.*>)?$`)

// isTypeRendering: text printed by dbtp (a type), as opposed to a diagnostic sentence.
func isTypeRendering(s string) bool { return reTypeRendering.MatchString(s) }

// goldenJudge compares got with the expectation under the spec's mode; "" = agrees.
func goldenJudge(spec *GoldenSpec, c *goldenCase, got string) string {
	et, ed, _ := goldenSplit(c.src, c.expected, c.name)
	gt, gd, _ := goldenSplit(c.src, got, c.name)
	if strings.Contains(spec.Mode, "+") {
		for _, m := range strings.Split(spec.Mode, "+") {
			if why := goldenJudge(&GoldenSpec{Mode: m}, c, got); why != "" {
				return why
			}
		}
		return ""
	}
	switch spec.Mode {
	case "types":
		var rows []int
		for r := range et {
			rows = append(rows, r)
		}
		sort.Ints(rows)
		for _, r := range rows {
			if strings.Join(et[r], " | ") != strings.Join(gt[r], " | ") {
				return fmt.Sprintf("row %d: expected type %q, reported %q", r, strings.Join(et[r], " | "), strings.Join(gt[r], " | "))
			}
		}
		for r := range gt {
			if _, ok := et[r]; !ok {
				return fmt.Sprintf("row %d: no type expected, reported %q", r, strings.Join(gt[r], " | "))
			}
		}
	case "diag-both":
		for _, m := range []string{"diag-miss", "diag-extra"} {
			if why := goldenJudge(&GoldenSpec{Mode: m}, c, got); why != "" {
				return why
			}
		}
	case "diag-miss":
		var rows []int
		for r := range ed {
			rows = append(rows, r)
		}
		sort.Ints(rows)
		for _, r := range rows {
			if !gd[r] {
				return fmt.Sprintf("row %d: a diagnostic is expected, none reported", r)
			}
		}
	case "diag-extra":
		var rows []int
		for r := range gd {
			rows = append(rows, r)
		}
		sort.Ints(rows)
		for _, r := range rows {
			if !ed[r] {
				return fmt.Sprintf("row %d: a diagnostic is reported, none expected", r)
			}
		}
	}
	return ""
}

// RunGolden executes the matching example programs in the interpreter (concretely).
func RunGolden(prog *ssa.Program, job *Job, nw int, solverBin []string) (*JobResult, error) {
	t0 := time.Now()
	spec := job.Golden
	var cases []*goldenCase
	all := loadGoldens()
	for i := range all {
		if spec.Filter == nil || spec.Filter.MatchString(all[i].src) {
			cases = append(cases, &all[i])
		}
	}
	res := &JobResult{Job: job, EndKinds: map[string]int{}, EndMsgs: map[string]int{}, Reached: map[string]int{}, Asserts: map[string]int{}, Fns: map[string]bool{}}
	if len(cases) == 0 {
		return res, nil
	}
	pkg := prog.ImportedPackage("ti")
	fn := pkg.Func("VerifRunSrc")
	ch := make(chan *goldenCase, len(cases))
	for _, c := range cases {
		ch <- c
	}
	close(ch)
	var mu sync.Mutex
	var wg sync.WaitGroup
	var firstErr error
	if nw > len(cases) {
		nw = len(cases)
	}
	for i := 0; i < nw; i++ {
		wg.Add(1)
		go func() {
			defer wg.Done()
			w, err := newWorker(prog, "ti", solverBin, configRoot(job.Config))
			if err != nil {
				mu.Lock()
				firstErr = err
				mu.Unlock()
				return
			}
			defer w.solver.Close()
			if coverOn {
				w.e.cover = map[*ssa.BasicBlock]struct{}{}
			}
			for c := range ch {
				j := &Job{Name: job.Name, Budget: 400000000, Source: c.src, File: c.name}
				w.resetPath(j, nil)
				status := "completed"
				func() {
					defer func() {
						if r := recover(); r != nil {
							switch r := r.(type) {
							case pathEnd:
								if r.kind != "exit" {
									status = r.kind + ": " + r.msg
								}
							case goPanic:
								status = "gopanic " + r.kind + ": " + r.msg
							default:
								status = fmt.Sprintf("ENGINE: %v", r)
							}
						}
					}()
					w.e.callFunction(nil, fn, []Value{int64(0)}, nil)
				}()
				got := strings.Join(w.e.out, "")
				mu.Lock()
				res.Paths++
				res.Steps += int64(w.e.steps)
				res.Reached["ran"]++
				res.Asserts[spec.ID]++
				switch {
				case status == "completed":
					res.EndKinds["completed"]++
					if why := goldenJudge(spec, c, got); why != "" {
						res.EndKinds["violated"]++
						res.EndKinds["completed"]--
						res.Violations = append(res.Violations, Violation{ID: spec.ID, Kind: "assert", Class: spec.Label + "/" + strings.TrimSuffix(strings.TrimPrefix(c.name, "./"), ".rb"),
							Msg: why, Model: map[string]uint64{}, Job: job.Name,
							Witness: map[string]string{"golden-file": c.name, "src": c.src, "expected-output": c.expected, "engine-output": got, "golden-mode": spec.Mode, "golden-config": job.Config}})
					}
				case strings.HasPrefix(status, "gopanic") || strings.HasPrefix(status, "budget"):
					// crashes and hangs belong to C01 / C02; here they only mean "no verdict on this example"
					res.EndKinds["crashed-or-hung"]++
				default:
					res.EndKinds["unsupported"]++
					res.EndMsgs[status]++
				}
				mu.Unlock()
			}
			if coverOn {
				coverMu.Lock()
				for b := range w.e.cover {
					coverHit[b] = true
				}
				coverMu.Unlock()
			}
			mu.Lock()
			res.Queries += w.solver.Queries
			res.SolverTime += w.solver.Time
			mu.Unlock()
		}()
	}
	wg.Wait()
	if firstErr != nil {
		return nil, firstErr
	}
	res.Wall = time.Since(t0)
	sort.Slice(res.Violations, func(i, j int) bool { return res.Violations[i].Class < res.Violations[j].Class })
	return res, nil
}

// replayGolden re-judges a golden counterexample on the native binary.
func replayGolden(n *Native, v *Violation) ReplayResult {
	name := v.Witness["golden-file"]
	c := &goldenCase{name: name, src: v.Witness["src"], expected: v.Witness["expected-output"]}
	spec := &GoldenSpec{Mode: v.Witness["golden-mode"]}
	var out string
	for try := 0; try < 4; try++ {
		cfg := ""
		if v.Witness["golden-config"] != "" {
			cfg = filepath.Join(configRoot(v.Witness["golden-config"]), ".ti-config")
		}
		out, _, _ = n.RunTi(map[string]string{strings.TrimPrefix(name, "./"): c.src}, []string{name}, cfg)
		if !isTimeoutOut(out) {
			break
		}
	}
	why := goldenJudge(spec, c, out)
	return ReplayResult{Cmd: "ti " + name + "   # " + filepath.Join(repoDir, "test", strings.TrimPrefix(name, "./")) + ", expectation from the _test.go next to it",
		Reproduced: why != "", Observed: "native: " + why}
}

// goldenJobs builds the auxiliary jobs of a property: the example programs whose source matches
// filter ("" = all), judged on types and / or diagnostics.
func goldenJobs(id, filter, what string, modes ...string) []*Job {
	var re *regexp.Regexp
	if filter != "" {
		re = regexp.MustCompile(filter)
	}
	mode := strings.Join(modes, "+")
	var judged []string
	for _, m := range modes {
		judged = append(judged, map[string]string{"types": "the type printed for every dbtp row", "diag-miss": "every row with an expected diagnostic has one", "diag-extra": "no row without an expected diagnostic has one", "diag-both": "the set of rows carrying a diagnostic"}[m])
	}
	return []*Job{{Name: "examples", Pkg: "ti", Entry: "VerifRunSrc", Replay: "golden", Asserts: []string{id + "-examples"},
		Golden: &GoldenSpec{Mode: mode, Filter: re, ID: id + "-examples", Label: id + "/example-program-differs-from-the-maintainers-expectation"},
		Bound:  "AUXILIARY, CONCRETE (not the deciding method): the example programs of /repo/test (plain `ti ./x.rb` invocations, 568 of 585) " + what + ", run concretely through the interpreter; judged against the expected output recorded in test/<name>_test.go: " + strings.Join(judged, "; ")}}
}

// goldenByProp: which properties get auxiliary example-program jobs, on which examples.
var goldenByProp = map[string]struct {
	filter, what string
	modes        []string
}{
	"C07": {"", "(all of them)", []string{"diag-miss"}},
	"C08": {"", "(all of them)", []string{"diag-extra"}},
	"C09": {`dbtp`, "that contain dbtp probes", []string{"types"}},
	"C10": {`\.nil\?|\.is_a\?|==`, "that test with nil? / is_a? / ==", []string{"types"}},
	"C14": {`\w+: [^:]`, "that pass keyword arguments", []string{"types", "diag-both"}},
	"C15": {`(?m)^\s*def `, "that define methods", []string{"types", "diag-both"}},
	"C16": {`(?m)^\s*(class|module) `, "that define classes or modules", []string{"types", "diag-both"}},
	"C17": {`do \||\{ ?\|`, "that pass blocks with parameters", []string{"types"}},
	"C27": {`::|(?m)^\s*module `, "that use namespaces", []string{"types", "diag-both"}},
}

// corpusSelection: the example programs the corpus-based symbolic jobs range over: quick tier
// a seeded sample (VERIF_SEED), thorough tier all of them; programs longer than 60 lines are
// left out (the jobs vary a row of the program).
var corpusSelOnce sync.Once
var corpusSel []goldenCase
var corpusQuickN = 40

func corpusSelection() []goldenCase {
	corpusSelOnce.Do(func() {
		var all []goldenCase
		for _, c := range loadGoldens() {
			if strings.Count(c.src, "\n") <= 60 {
				all = append(all, c)
			}
		}
		if !thoroughTier && len(all) > corpusQuickN {
			r := rand.New(rand.NewSource(corpusSeed))
			r.Shuffle(len(all), func(i, j int) { all[i], all[j] = all[j], all[i] })
			all = all[:corpusQuickN]
			sort.Slice(all, func(i, j int) bool { return all[i].name < all[j].name })
		}
		corpusSel = all
	})
	return corpusSel
}

var corpusSeed int64 = 1

// goldenJobsFor: the auxiliary jobs of a property (C19: the examples under the shipped
// configuration loaded in reverse file order must still meet the recorded expectations).
func goldenJobsFor(id string) []*Job {
	if id == "C19" {
		js := goldenJobs("C19", "", "(all of them), analysed under the shipped configuration with every file renamed so that the load order is reversed", "types", "diag-both")
		for _, j := range js {
			j.Config = "rev"
			j.Name += "-reversed-config"
		}
		return js
	}
	if id == "C20" {
		js := goldenJobs("C20", "", "(all of them), analysed under the shipped configuration plus two files declaring classes no example mentions (methods named like first / push / to_s / nil? / each / + / puts / methods / sleep_ms / length, one class extending Array)", "types", "diag-both")
		for _, j := range js {
			j.Config = "extra"
			j.Name += "-extra-classes"
		}
		return js
	}
	if g, ok := goldenByProp[id]; ok {
		return goldenJobs(id, g.filter, g.what, g.modes...)
	}
	return nil
}
