package main

import "strings"

func init() {
	register(&Property{ID: "C27",
		Jobs: func(tier string) []*Job {
			return []*Job{f4Job("namespaces", "VerifNamespaces", 0, []string{"ran"}, []string{"C27-ns"},
				"a class group (Aa with an instance and a class method, Bb < Aa calling the inherited method, optionally Cc < Bb) analysed at top level, wrapped in `module Mm` with Mm::-qualified outside references, and next to a decoy class with the same short name (top-level namesake of the superclass before, of the subclass after, namesake inside an unrelated module); pairs compared in one path; the returned kind is a solver variable")}
		},
		Custom:    replayNamespaces,
		Filter:    func(v *Violation) bool { return strings.HasPrefix(v.ID, "C27") },
		Stubs:     f4Stubs,
		Functions: []string{"(*ti/eval.Class).Evaluation", "(*ti/eval.Class).getNextFrame", "(*ti/eval.Module).Evaluation", "ti/eval.nameSpaceEvaluation", "ti/base.CalculateFrame", "ti/base.getParentMethodT"},
		Outside:   "two levels of module nesting, --extends output, reopened classes",
	})
}
