package main

import "strings"

func init() {
	register(&Property{ID: "C05",
		Jobs: func(tier string) []*Job {
			n := 2
			if tier == "thorough" {
				n = 3
			}
			det := f4Job("programs", "VerifDeterminism", 0, []string{"ran"}, []string{"C05-same-output"},
				"6 programs (static/instance namesakes, a bare class-name prefix on the cursor row (class-list completion), the same class name in two modules, in doubly nested modules, overloaded builtin use, inheritance + mixins) x 17 output modes (-i, --suggest, --hover, --llm-nav, --llm-nav --target, --llm-define [--class], --llm-class, --extends, --define, diagnostics, --llm-nav --all), each analysed twice in one path; every range over TSignatures / ClassInheritanceMap / MethodCallPoint / MethodCalleePoint / TSignatureDocument iterates forward or backward (one solver-chosen schedule variable per range statement, independent in the two runs)")
			det.Budget = 12000000
			return []*Job{
				{Name: "sorted-signatures", Pkg: "ti/base", Entry: "VerifSortedSigs", N: n, Budget: 2000000, Reach: []string{"sorted"}, Asserts: []string{"C05-sorted"}, Replay: "kernel", Cross: true, Config: "core",
					Bound: sprintf("GetSortedTSignatures / GetSortedTSignaturesByClass on a TSignatures map of %d entries whose Method/Class/Frame/IsStatic/Detail are solver variables over 2-element domains (pairwise distinct), arbitrary map iteration order (a solver-chosen permutation at every range statement), two runs compared; the real slices.SortFunc (pdqsort) is interpreted", n)},
				det,
			}
		},
		Custom:    replayDeterminism,
		Filter:    func(v *Violation) bool { return strings.HasPrefix(v.ID, "C05") },
		Stubs:     append(f4Stubs, "Go's randomised map iteration is modelled by schedule variables: an arbitrary permutation per range statement (kernel job) / forward-or-backward per range statement (program job)"),
		Functions: []string{"ti/base.GetSortedTSignatures", "ti/base.GetSortedTSignaturesByClass", "ti.appendSignature", "ti/cmd.printMatchingSignatures", "ti/cmd.printInheritanceMap", "ti/cmd.PrintTargetClassExtends", "ti/cmd.PrintAllDefinitionsForLlm", "ti/cmd.printLlmNavDetail"},
		Assumptions: []string{"GC / GOMAXPROCS schedules are irrelevant to this single-goroutine code and are not modelled; the only schedule source is map iteration order"},
		Outside:   "more than 3 signature entries in the kernel job; iteration orders other than forward/backward in the program job; maps other than the five listed",
	})
}
