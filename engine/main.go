package main

import (
	"runtime"
	"encoding/json"
	"flag"
	"fmt"
	"math/rand"
	"os"
	"path/filepath"
	"runtime/debug"
	"runtime/pprof"
	"sort"
	"strconv"
	"strings"
	"sync"
	"time"

	"golang.org/x/tools/go/ssa"
)

// Property describes how one property of properties.jsonl is decided.
type Property struct {
	ID          string
	Jobs        func(tier string) []*Job
	Functions   []string // functions of /repo the encoding is about (evidence)
	Assumptions []string
	Stubs       []string
	Outside     string // what lies outside the bound
	// Custom replays output-relation counterexamples natively. Returns handled=false to fall
	// back to the generic kernel/program replay.
	Custom func(n *Native, job *Job, v *Violation) (ReplayResult, bool)
	// Filter drops violations that are not this property's business (e.g. crashes are C01's).
	Filter func(v *Violation) bool
}

var properties = map[string]*Property{}

func register(p *Property) { properties[p.ID] = p }

type KnownFinding struct {
	Property    string `json:"property"`
	Class       string `json:"class"`
	Witness     string `json:"witness"`
	Description string `json:"description"`
}

type KnownFile struct {
	Findings []KnownFinding `json:"findings"`
	Fixed    []string       `json:"fixed"`
}

func loadKnown() map[string]KnownFinding {
	m := map[string]KnownFinding{}
	b, err := os.ReadFile("/verif/known_findings.json")
	if err != nil {
		return m
	}
	var kf KnownFile
	if err := json.Unmarshal(b, &kf); err != nil {
		fmt.Println("known_findings.json:", err)
		os.Exit(2)
	}
	for _, f := range kf.Findings {
		m[f.Property+"|"+f.Class] = f
	}
	return m
}

type cexReport struct {
	Job      string            `json:"job"`
	Class    string            `json:"class"`
	Kind     string            `json:"kind"`
	ID       string            `json:"assertion"`
	Msg      string            `json:"message"`
	Model    map[string]uint64 `json:"model"`
	Witness  map[string]string `json:"witness,omitempty"`
	Count    int               `json:"paths_with_this_class"`
	Replay   string            `json:"replay"`
	Observed string            `json:"observed,omitempty"`
	Cmd      string            `json:"replay_cmd,omitempty"`
	Status   string            `json:"status"` // known-finding | VIOLATION | unrealizable | not-reproduced
}

func main() {
	pid := flag.String("p", "", "property id")
	tier := flag.String("tier", "quick", "quick|thorough")
	workers := flag.Int("workers", 16, "parallel workers")
	listClasses := flag.Bool("classes", false, "print every counterexample class with a witness (for triage)")
	onlyJob := flag.String("job", "", "run only this job")
	noTV := flag.Bool("notv", false, "skip translator validation (development only)")
	noTwin := flag.Bool("notwin", false, "skip twin runs (development only)")
	corpusAll := flag.Bool("corpus", false, "run the whole corpus differential and exit")
	srcFile := flag.String("src", "", "debug: run one concrete program through the interpreter and print its stdout")
	srcCfg := flag.String("cfg", "", "debug: configuration variant for -src")
	srcEntry := flag.String("entry", "VerifRunSrc", "debug: entry for -src")
	maxPathsFlag := flag.Int("maxpaths", 0, "debug: cap the number of paths per job")
	noGolden := flag.Bool("nogolden", false, "skip the auxiliary example-program jobs (development only)")
	noEvidence := flag.Bool("noevidence", false, "do not rewrite evidence/<id>.json (development only: seed trials)")
	coverFlag := flag.Bool("cover", false, "development: report the blocks of the property's anchor files no explored path executed")
	coverExtra := flag.String("coverfiles", "", "development: extra comma-separated files for -cover")
	cpuprof := flag.String("cpuprofile", "", "write cpu profile")
	flag.Parse()
	coverOn = *coverFlag
	if *cpuprof != "" {
		f, _ := os.Create(*cpuprof)
		pprof.StartCPUProfile(f)
		defer pprof.StopCPUProfile()
	}
	if t := os.Getenv("VERIF_TIER"); t != "" && *tier == "" {
		*tier = t
	}
	seed := int64(1)
	if s := os.Getenv("VERIF_SEED"); s != "" {
		if v, err := strconv.ParseInt(s, 10, 64); err == nil {
			seed = v
		}
	}
	corpusSeed = seed
	// memory: collect harder from 36 GB on, and stop with a message (exit 2, no verdict)
	// rather than being killed by the kernel if the heap still passes 52 GB
	debug.SetMemoryLimit(36 << 30)
	go func() {
		for {
			time.Sleep(2 * time.Second)
			var ms runtime.MemStats
			runtime.ReadMemStats(&ms)
			if ms.HeapAlloc > 52<<30 {
				fmt.Println("ENGINE-ERROR: heap above 52 GB; stopping without a verdict")
				os.Exit(2)
			}
		}
	}()
	debug.SetGCPercent(200)
	t0 := time.Now()
	os.Chdir(filepath.Join(repoDir, "test"))

	overlay, ovPaths := buildOverlay()
	overlayFiles = overlay
	prog, err := loadProgram(overlay, "ti", "ti/cmd/rbs2json")
	if err != nil {
		fmt.Println("ENGINE-ERROR: cannot load /repo with the harness overlay:", err)
		os.Exit(2)
	}
	loadT := time.Since(t0)
	nat, err := NewNative(ovPaths)
	defer nat.Close()
	if err != nil {
		fmt.Println("ENGINE-ERROR:", err)
		nat.Close()
		os.Exit(2)
	}
	z3 := []string{"z3", "-in"}
	if err := setupConfigRoots(nat.Dir); err != nil {
		fmt.Println("ENGINE-ERROR:", err)
		nat.Close()
		os.Exit(2)
	}

	if *srcFile != "" {
		b, err := os.ReadFile(*srcFile)
		if err != nil {
			fmt.Println(err)
			os.Exit(2)
		}
		job := &Job{Name: "src", Pkg: "ti", Entry: *srcEntry, N: 0, Budget: 50000000, Source: string(b), File: "./a.rb", Config: *srcCfg, Replay: "none"}
		res, err := RunJob(prog, job, 1, false, z3)
		if err != nil {
			fmt.Println(err)
			os.Exit(2)
		}
		fmt.Printf("paths=%d ends=%v msgs=%v\n", res.Paths, res.EndKinds, res.EndMsgs)
		for _, v := range res.Violations {
			fmt.Printf("violation: %s %s %s\n", v.Kind, v.Class, v.Msg)
		}
		fmt.Print(lastOut)
		nat.Close()
		return
	}
	if *corpusAll {
		tv := translatorValidation(prog, nat, 0, seed, *workers, z3)
		fmt.Printf("corpus: files=%d same=%d diff=%d\n", tv.Files, tv.Same, len(tv.Diffs))
		for _, d := range tv.Diffs {
			fmt.Println(d)
		}
		return
	}
	thoroughTier = *tier == "thorough"
	prop := properties[*pid]
	if prop == nil {
		fmt.Println("unknown property", *pid)
		nat.Close()
		os.Exit(2)
	}

	// ---- translator validation: interpreter vs native ti on corpus programs ----
	var tv *TVResult
	if !*noTV {
		k := 32
		if *tier == "thorough" {
			k = 0
		}
		tv = translatorValidation(prog, nat, k, seed, *workers, z3)
		if len(tv.Diffs) > 0 {
			fmt.Printf("ENGINE-MISMATCH: the interpreter disagrees with the native binary on %d of %d corpus programs; no verdict\n", len(tv.Diffs), tv.Files)
			for _, d := range tv.Diffs[:min(5, len(tv.Diffs))] {
				fmt.Println(d)
			}
			nat.Close()
			os.Exit(2)
		}
	}

	known := loadKnown()
	knownPrinted := map[string]bool{}
	var reports []cexReport
	var jobsEv []map[string]any
	exit := 0
	totalPaths, totalQueries, totalUnsat, totalSat, totalUnknown, inconclusive := 0, 0, 0, 0, 0, 0
	totalNonTrivial := 0
	var totalSteps int64
	var totalDec int64
	var solverTime time.Duration
	fns := map[string]bool{}
	violations := 0
	replayed := 0
	var samples []any
	vacuityProblems := []string{}
	var crossEv []map[string]any
	var entriesByPkg = map[string][]string{}
	jobs := prop.Jobs(*tier)
	if !*noGolden {
		jobs = append(jobs, goldenJobsFor(prop.ID)...)
	}
	for _, j := range jobs {
		entriesByPkg[j.Pkg] = append(entriesByPkg[j.Pkg], j.Entry)
	}
	for pkg, es := range entriesByPkg {
		sort.Strings(es)
		var u []string
		for i, e := range es {
			if i == 0 || es[i-1] != e {
				u = append(u, e)
			}
		}
		entriesByPkg[pkg] = u
	}
	for _, job := range jobs {
		if *onlyJob != "" && job.Name != *onlyJob {
			continue
		}
		if *maxPathsFlag > 0 {
			job.MaxPaths = *maxPathsFlag
		}
		res, err := RunJob(prog, job, *workers, false, z3)
		if err != nil {
			fmt.Println("ENGINE-ERROR:", err)
			nat.Close()
			os.Exit(2)
		}
		var ms runtime.MemStats
		runtime.ReadMemStats(&ms)
		fmt.Printf("job %s: paths=%d steps=%d maxsteps=%d queries=%d (sat %d unsat %d unknown %d) solver=%v wall=%v heap=%dMB ends=%v\n",
			job.Name, res.Paths, res.Steps, res.MaxSteps, res.Queries, res.Sat, res.Unsat, res.Unknown, res.SolverTime.Round(time.Millisecond), res.Wall.Round(time.Millisecond), ms.HeapAlloc>>20, res.EndKinds)
		for m, c := range res.EndMsgs {
			fmt.Printf("   inconclusive x%d: %s\n", c, m)
		}
		totalPaths += res.Paths
		totalNonTrivial += res.NonTrivial
		for _, sm := range res.Samples {
			if len(samples) < 10 {
				samples = append(samples, sm)
			}
		}
		totalSteps += res.Steps
		totalDec += res.Decisions
		totalQueries += res.Queries
		totalSat += res.Sat
		totalUnsat += res.Unsat
		totalUnknown += res.Unknown
		solverTime += res.SolverTime
		inconclusive += res.Inconclusive()
		for f := range res.Fns {
			fns[f] = true
		}
		// vacuity guards
		for _, r := range job.Reach {
			if res.Reached[r] == 0 {
				vacuityProblems = append(vacuityProblems, fmt.Sprintf("job %s: reach marker %q never hit", job.Name, r))
			}
		}
		for _, a := range job.Asserts {
			if res.Asserts[a] == 0 {
				vacuityProblems = append(vacuityProblems, fmt.Sprintf("job %s: assertion %q never evaluated", job.Name, a))
			}
		}
		twinViol := -1
		if len(job.Asserts) > 0 && !*noTwin && job.Golden == nil {
			tw, err := RunJob(prog, job, *workers, true, z3)
			if err == nil {
				twinViol = len(tw.Violations)
				if twinViol == 0 {
					vacuityProblems = append(vacuityProblems, fmt.Sprintf("job %s: twin (assert false) came back unviolated", job.Name))
				}
			}
		}
		// cross-solver check (thorough): same exploration on two other solvers
		if job.Cross && *tier == "thorough" {
			sig := func(r *JobResult) string {
				cs := map[string]bool{}
				for _, v := range r.Violations {
					cs[v.Class] = true
				}
				var ks []string
				for k := range cs {
					ks = append(ks, k)
				}
				sort.Strings(ks)
				return fmt.Sprintf("paths=%d classes=%v", r.Paths, ks)
			}
			for _, alt := range [][]string{{"z3-new", "-in"}, {"cvc5", "--incremental", "--produce-models"}} {
				ar, err := RunJob(prog, job, *workers, false, alt)
				status := "agree"
				if err != nil {
					status = "error: " + err.Error()
				} else if ar.Unknown > 0 || ar.Inconclusive() > 0 {
					status = fmt.Sprintf("inconclusive on this solver (%d unknown answers)", ar.Unknown)
				} else if sig(ar) != sig(res) {
					status = "DISAGREE: " + sig(ar) + " vs " + sig(res)
					fmt.Printf("SOLVER-DISAGREEMENT: job %s %s: %s\n", job.Name, alt[0], status)
					if exit == 0 {
						exit = 2
					}
				}
				crossEv = append(crossEv, map[string]any{"job": job.Name, "solver": alt[0], "result": status, "queries": ar.Queries, "solver_time_s": ar.SolverTime.Seconds()})
				fmt.Printf("   cross-check %s: %s\n", alt[0], status)
			}
		}
		// group counterexamples by class
		byClass := map[string][]Violation{}
		var order []string
		for _, v := range res.Violations {
			if v.Kind == "inconclusive" {
				inconclusive++
				continue
			}
			if prop.Filter != nil && !prop.Filter(&v) {
				continue
			}
			cls := v.Class
			if cls == "" {
				cls = v.ID
			}
			v.Class = cls
			if _, ok := byClass[cls]; !ok {
				order = append(order, cls)
			}
			byClass[cls] = append(byClass[cls], v)
		}
		sort.Strings(order)
		for _, cls := range order {
			vs := byClass[cls]
			v := vs[0]
			rep := cexReport{Job: job.Name, Class: cls, Kind: v.Kind, ID: v.ID, Msg: v.Msg, Model: v.Model, Witness: v.Witness, Count: len(vs)}
			_, isKnown := known[prop.ID+"|"+cls]
			// replay natively (first witness; a second one if the first does not reproduce)
			var rr ReplayResult
			tried := 0
			for i := 0; i < len(vs) && tried < 3; i++ {
				vv := vs[i]
				tried++
				handled := false
				nat.ExtraCfg = nil
				if fw := vv.Witness["extra-config-files"]; fw != "" {
					nat.ExtraCfg = map[string]string{}
					for _, rec := range strings.Split(fw, "\x1d") {
						if parts := strings.SplitN(rec, "\x1e", 2); len(parts) == 2 {
							nat.ExtraCfg[parts[0]] = parts[1]
						}
					}
				}
				if vv.Witness["golden-file"] != "" {
					rr, handled = replayGolden(nat, &vv), true
				} else if prop.Custom != nil {
					rr, handled = prop.Custom(nat, job, &vv)
				}
				if !handled {
					switch job.Replay {
					case "kernel":
						rr, err = nat.ReplayKernel(job, entriesByPkg[job.Pkg], &vv)
						if err != nil {
							fmt.Println("ENGINE-ERROR:", err)
							nat.Close()
							os.Exit(2)
						}
					case "program":
						rr = nat.ReplayProgram(&vv, job.Config)
					default:
						rr = ReplayResult{Observed: "no replay defined"}
					}
				}
				replayed++
				if !rr.Reproduced && handled && job.StubNoRepro {
					// second attempt: Sym declared natively by a configuration file instead of
					// being replaced by literals (a literal can hide what needs a call)
					if js, ok := symConfigJSON(vv.Witness); ok {
						nat.SymJSON = js
						vv.Witness["replay-mode"] = "config"
						rr2, _ := prop.Custom(nat, job, &vv)
						nat.SymJSON = ""
						if rr2.Reproduced {
							rr = rr2
							rr.Cmd += "   # with .ti-config/zz_sym.json = " + js
							vv.Witness["native-sym-config"] = js
						} else {
							delete(vv.Witness, "replay-mode")
						}
					}
				}
				nat.ExtraCfg = nil
				if rr.Reproduced {
					rep.Model, rep.Witness, rep.Msg = vv.Model, vv.Witness, vv.Msg
					v = vv
					break
				}
			}
			rep.Observed, rep.Cmd = rr.Observed, rr.Cmd
			switch {
			case rr.Reproduced && isKnown:
				rep.Status, rep.Replay = "known-finding", "reproduced"
				if !knownPrinted[cls] {
					knownPrinted[cls] = true
					fmt.Printf("KNOWN-FINDING: property=%s %s (%s)\n", prop.ID, cls, witnessText(&v))
				}
			case rr.Reproduced:
				rep.Status, rep.Replay = "VIOLATION", "reproduced"
				dir := writeReplay(prop.ID, len(reports), &v, job, rr)
				fmt.Printf("VIOLATION property=%s replay=%s\n", prop.ID, dir)
				fmt.Printf("   class: %s\n   witness: %s\n   observed: %s\n", cls, witnessText(&v), strings.ReplaceAll(tail(rr.Observed, 300), "\n", " | "))
				violations++
				exit = 1
			case job.StubNoRepro:
				rep.Status, rep.Replay = "unrealizable", "not reproduced (token sequence not realizable as text, or stub-only)"
			case isKnown:
				// listed, but this run's witness did not reproduce: report it as an engine
				// discrepancy without raising an alarm
				rep.Status, rep.Replay = "not-reproduced", "known class, witness not reproduced natively"
				fmt.Printf("NOTE: known class %s found but its witness did not reproduce natively (%s)\n", cls, witnessText(&v))
			default:
				rep.Status, rep.Replay = "not-reproduced", "ENGINE-DISCREPANCY"
				fmt.Printf("ENGINE-DISCREPANCY: property=%s class=%s witness=%s not reproduced natively: %s\n", prop.ID, cls, witnessText(&v), strings.ReplaceAll(tail(rr.Observed, 300), "\n", " | "))
				if exit == 0 {
					exit = 2
				}
			}
			if *listClasses {
				fmt.Printf("CLASS %s | job=%s n=%d status=%s | %s | %s\n", cls, job.Name, len(vs), rep.Status, witnessText(&v), strings.ReplaceAll(tail(v.Msg, 160), "\n", " "))
			}
			reports = append(reports, rep)
		}
		je := map[string]any{
			"job": job.Name, "entry": job.Pkg + "." + job.Entry, "bound": job.Bound, "n": job.N, "step_budget_per_path": job.Budget,
			"paths": res.Paths, "path_ends": res.EndKinds, "ssa_steps": res.Steps, "max_ssa_steps_on_a_completed_path": res.MaxSteps, "nontrivial_paths": res.NonTrivial, "decisions": res.Decisions,
			"branch_conditions_folded_by_facts": res.Folded,
			"solver_queries": res.Queries, "sat": res.Sat, "unsat": res.Unsat, "unknown": res.Unknown,
			"solver_time_s": res.SolverTime.Seconds(), "wall_s": res.Wall.Seconds(),
			"reach_markers": res.Reached, "assertions_evaluated": res.Asserts, "twin_violations": twinViol,
			"counterexample_classes": len(order), "exhaustive_within_bound": !res.Truncated && res.Inconclusive() == 0,
			"auxiliary_concrete_job": job.Golden != nil,
		}
		jobsEv = append(jobsEv, je)

	}
	for _, vp := range vacuityProblems {
		fmt.Println("VACUITY:", vp)
		if exit == 0 {
			exit = 2
		}
	}
	if inconclusive > 0 {
		fmt.Printf("INCONCLUSIVE: %d paths ended without a verdict (unsupported operation / solver unknown); the bound actually covered is reduced accordingly\n", inconclusive)
	}
	// ---- evidence ----
	var fnList []string
	for f := range fns {
		if !strings.Contains(f, "Verif") && !strings.Contains(f, "verif") {
			fnList = append(fnList, f)
		}
	}
	sort.Strings(fnList)
	for i, r := range reports {
		if i < 8 {
			samples = append(samples, map[string]any{"counterexample_class": r.Class, "witness": r.Witness, "model": r.Model, "status": r.Status})
		}
	}
	tvProgs := 0
	var tvSamples []string
	if tv != nil {
		tvProgs = tv.Files
		tvSamples = tv.Sample
	}
	ev := map[string]any{
		"property_id": prop.ID, "tier": *tier, "seed": seed, "level": "model_checking",
		"wall_s":     time.Since(t0).Seconds(),
		"violations": violations,
		"assumptions": append([]string{
			"go/packages + go/ssa (x/tools v0.29.0) build the SSA of /repo faithfully; the symgo interpreter follows Go semantics (checked on this run by translator validation against the native binary)",
			"z3 4.8.12 verdicts (5 s per query; any unknown/error makes the path inconclusive)",
			"main.main's goroutine and 500 ms watchdog are not executed: harnesses call evaluationLoop per round as main does; the watchdog is replaced by the per-path step budget",
		}, prop.Assumptions...),
		"coverage": map[string]any{
			"states":                        totalPaths,
			"transitions":                   int(totalDec),
			"traces_validated_against_impl": replayed + tvProgs,
			"evaluations":                   totalPaths,
			"distinct_nontrivial":           totalNonTrivial,
			"rule":                          "one evaluation = one explored path of the real code from the harness entry (a distinct vector of solver-decided branch outcomes over the symbolic inputs; paths are distinct by construction). A path is non-trivial when it ran far enough to evaluate at least one of the harness's assertions or reach markers (paths cut by an unsatisfiable assumption, or ended by a crash / budget overrun before the first marker, are not counted). states = paths explored, transitions = branch decisions along them. Samples: a few explored paths written out (the solver's model for the path condition and the harness's witnesses under it), then counterexamples.",
			"samples":                       samples,
			"exhaustive":                    inconclusive == 0,
			"functions_encoded":             fnList,
			"functions_encoded_count":       len(fnList),
			"ssa_steps":                     totalSteps,
			"solver":                        map[string]any{"binary": "z3 -in (4.8.12), push/pop per decision", "queries": totalQueries, "sat": totalSat, "unsat": totalUnsat, "unknown": totalUnknown, "time_s": solverTime.Seconds()},
			"jobs":                          jobsEv,
			"inconclusive_paths":            inconclusive,
			"counterexamples":               reports,
			"stubs":                         prop.Stubs,
			"outside_bound":                 prop.Outside,
			"translator_validation":         map[string]any{"corpus_programs_compared": tvProgs, "byte_identical": tvProgs, "sample": tvSamples},
			"load_ssa_s":                    loadT.Seconds(),
			"vacuity_problems":              vacuityProblems,
			"cross_solver_checks":           crossEv,
		},
	}
	os.MkdirAll("/verif/evidence", 0o755)
	b, _ := json.MarshalIndent(ev, "", " ")
	if !*noEvidence && os.Getenv("VERIF_REPO") == "" {
		os.WriteFile(filepath.Join("/verif/evidence", prop.ID+".json"), b, 0o644)
	}
	fmt.Printf("%s %s: paths=%d queries=%d unsat=%d classes=%d violations=%d wall=%.1fs exit=%d\n", prop.ID, *tier, totalPaths, totalQueries, totalUnsat, len(reports), violations, time.Since(t0).Seconds(), exit)
	if coverOn {
		var extra []string
		if *coverExtra != "" {
			extra = strings.Split(*coverExtra, ",")
		}
		coverReport(prog, prop.ID, extra)
	}
	nat.Close()
	pprof.StopCPUProfile()
	os.Exit(exit)
}

func witnessText(v *Violation) string {
	if s, ok := v.Witness["src"]; ok {
		return fmt.Sprintf("src=%q", s)
	}
	if len(v.Witness) > 0 {
		var ks []string
		for k := range v.Witness {
			ks = append(ks, k)
		}
		sort.Strings(ks)
		var parts []string
		for _, k := range ks {
			parts = append(parts, fmt.Sprintf("%s=%q", k, v.Witness[k]))
		}
		return strings.Join(parts, " ")
	}
	var ks []string
	for k := range v.Model {
		ks = append(ks, k)
	}
	sort.Strings(ks)
	var parts []string
	for _, k := range ks {
		parts = append(parts, fmt.Sprintf("%s=%d", k, v.Model[k]))
	}
	return strings.Join(parts, " ")
}

func writeReplay(id string, n int, v *Violation, job *Job, rr ReplayResult) string {
	dir := filepath.Join("/verif/replay", id, fmt.Sprint(n))
	os.MkdirAll(dir, 0o755)
	b, _ := json.MarshalIndent(map[string]any{"property": id, "job": job.Name, "entry": job.Pkg + "." + job.Entry, "n": job.N, "class": v.Class,
		"assertion": v.ID, "kind": v.Kind, "message": v.Msg, "model": v.Model, "witness": v.Witness, "replay_cmd": rr.Cmd, "observed": rr.Observed}, "", " ")
	os.WriteFile(filepath.Join(dir, "counterexample.json"), b, 0o644)
	mb, _ := json.Marshal(v.Model)
	os.WriteFile(filepath.Join(dir, "model.json"), mb, 0o644)
	for k, w := range v.Witness {
		os.WriteFile(filepath.Join(dir, "witness_"+k+".txt"), []byte(w), 0o644)
	}
	return dir
}

// ---- translator validation ----

var tvRetry sync.Mutex
var thoroughTier bool
var lastOut string

type TVResult struct {
	Files  int
	Same   int
	Diffs  []string
	Sample []string
}

func translatorValidation(prog *ssa.Program, nat *Native, k int, seed int64, nw int, solverBin []string) *TVResult {
	files, _ := filepath.Glob(filepath.Join(repoDir, "test", "*.rb"))
	sort.Strings(files)
	if k > 0 && k < len(files) {
		r := rand.New(rand.NewSource(seed))
		r.Shuffle(len(files), func(i, j int) { files[i], files[j] = files[j], files[i] })
		files = files[:k]
		sort.Strings(files)
	}
	tv := &TVResult{Files: len(files)}
	type item struct {
		file string
		diff string
	}
	ch := make(chan string, len(files))
	out := make(chan item, len(files))
	for _, f := range files {
		ch <- f
	}
	close(ch)
	pkg := prog.ImportedPackage("ti")
	fn := pkg.Func("VerifRunSrc")
	done := make(chan bool)
	for i := 0; i < nw; i++ {
		go func() {
			defer func() { done <- true }()
			w, err := newWorker(prog, "ti", solverBin, configRoot(""))
			if err != nil {
				out <- item{"", "worker: " + err.Error()}
				return
			}
			defer w.solver.Close()
			for f := range ch {
				b, _ := os.ReadFile(f)
				name := "./" + filepath.Base(f)
				natOut, _, _ := nat.RunTi(map[string]string{filepath.Base(f): string(b)}, []string{name}, "")
				// the 500 ms watchdog may fire spuriously while all cores are busy: retry
				for try := 0; try < 4 && isTimeoutOut(natOut); try++ {
					tvRetry.Lock()
					natOut, _, _ = nat.RunTi(map[string]string{filepath.Base(f): string(b)}, []string{name}, "")
					tvRetry.Unlock()
				}
				job := &Job{Name: "tv", Budget: 400000000, Source: string(b), File: name}
				w.resetPath(job, nil)
				status := "ok"
				func() {
					defer func() {
						if r := recover(); r != nil {
							switch r := r.(type) {
							case pathEnd:
								if r.kind != "exit" {
									status = r.kind + ": " + r.msg
								}
							case goPanic:
								status = "gopanic " + r.kind + ": " + r.msg + " @ " + r.site
							default:
								status = fmt.Sprintf("ENGINE: %v", r)
							}
						}
					}()
					w.e.callFunction(nil, fn, []Value{int64(0)}, nil)
				}()
				got := strings.Join(w.e.out, "")
				switch {
				case strings.HasPrefix(status, "gopanic"):
					if !strings.Contains(natOut, "panic:") {
						out <- item{name, fmt.Sprintf("DIFF %s: engine %s ; native %q", name, status, natOut)}
						continue
					}
				case strings.HasPrefix(status, "budget"):
					if !isTimeoutOut(natOut) {
						out <- item{name, fmt.Sprintf("DIFF %s: engine budget ; native %q", name, natOut)}
						continue
					}
				case status != "ok":
					out <- item{name, fmt.Sprintf("DIFF %s: engine aborted: %s", name, status)}
					continue
				case strings.TrimSpace(got) != strings.TrimSpace(natOut):
					out <- item{name, fmt.Sprintf("DIFF %s:\n  engine: %q\n  native: %q", name, got, natOut)}
					continue
				}
				out <- item{name, ""}
			}
		}()
	}
	for i := 0; i < nw; i++ {
		<-done
	}
	close(out)
	for it := range out {
		if it.diff != "" {
			tv.Diffs = append(tv.Diffs, it.diff)
		} else {
			tv.Same++
			if len(tv.Sample) < 5 {
				tv.Sample = append(tv.Sample, it.file)
			}
		}
	}
	sort.Strings(tv.Diffs)
	return tv
}
