package main

import "strings"

func init() {
	register(&Property{ID: "C15",
		Jobs: func(tier string) []*Job {
			return []*Job{f4Job("usermethod", "VerifUserMethod", 0, []string{"ran"}, []string{"C15-param", "C15-ret1"},
				"8 skeletons (definition before / after the call sites, default parameter, keyword parameter, explicit return, call inside another method, a body operation, three call sites) with call-site argument kinds Sym.a / Sym.b as solver variables; asserted: the parameter type reported in the body names every call-site kind, the call result names the kinds the body can return, and `v + 1` is reported iff it fails for every call-site kind / silent iff it succeeds for all")}
		},
		Custom:    replayCovers,
		Filter:    func(v *Violation) bool { return strings.HasPrefix(v.ID, "C15") },
		Stubs:     f4Stubs,
		Functions: []string{"ti/eval/method_evaluator.propagationForCalledTo", "ti/base.SnapShotArgumentTypes", "ti/base.RestoreArgumentTypes", "(*ti/eval.Def).Evaluation", "(*ti/eval.Return).Evaluation"},
		Outside:   "more than 3 call sites, recursion, -i / hover rendering of the signature (C22)",
	})
}
