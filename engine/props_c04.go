package main

import "strings"

func init() {
	mk := func(name, entry string, n int, bound string) *Job {
		return &Job{Name: name, Pkg: "ti", Entry: entry, N: n, Budget: 5000000, MaxDepth: 300, Reach: []string{"ran"}, Asserts: []string{"C04-output-lines"}, Replay: "custom", Config: "core",
			Bound: bound + "; mode in {--suggest, --hover, --define} enumerated; --row=N with N a solver variable in [0, lines+2]; core configuration subset"}
	}
	register(&Property{ID: "C04",
		Jobs: func(tier string) []*Job {
			js := []*Job{mk("modes-top-full-k1", "VerifModesTop", 1, "every text of <=1 fragment from the full alphabet (~130 fragments incl. `x.`, `Foo.`, `[1].`, an empty string literal), with/without trailing newline")}
			cm := mk("corpus-modes", "VerifCorpusModes", 0, "the repository's example programs (/repo/test/*.rb with a plain invocation and at most 60 lines; quick tier: a sample of 40 chosen by VERIF_SEED, thorough tier: all)")
			cm.Config, cm.Budget = "", 40000000
			cm.Bound = strings.Replace(cm.Bound, "; core configuration subset", "; full shipped test configuration", 1)
			js = append(js, cm)
			if tier == "thorough" {
				js = append(js, mk("modes-top-core-k2", "VerifModesCore", 2, "every text of <=2 fragments from the 36-fragment core alphabet"),
					mk("modes-ctx-core-k1", "VerifModesCtxCore", 1, "15 context prefixes + <=1 fragment from the core alphabet"))
			}
			return js
		},
		Custom:    replayModes,
		Filter:    func(v *Violation) bool { return strings.HasPrefix(v.Kind, "panic") || v.Kind == "budget" || strings.HasPrefix(v.ID, "C04") },
		Stubs:     []string{"os.Exit / fmt.Println captured; the target row is written to Parser.LspTargetRow exactly where cmd.ApplyParserFlags writes it (the --row= string parsing itself is outside)"},
		Functions: []string{"ti/cmd.PrintSuggestionsForLsp", "ti/cmd.PrintHover", "ti/cmd.PrintAllDefinitionsForLsp", "ti/cmd.calculateObjectClassAndIsStatic", "(*ti/parser.Parser).SetLastEvaluatedT", "ti.evaluationLoop"},
		Outside:   "longer programs; strconv.Atoi of the --row argument; the real watchdog",
	})
}
