package main

import "strings"

func init() {
	register(&Property{ID: "C24",
		Jobs: func(tier string) []*Job {
			return []*Job{f4Job("callgraph", "VerifCallGraph", 0, []string{"ran"}, []string{"C24-total", "C24-row"},
				"method foo plus exactly one call site of each of 10 kinds (top-level statement, statement inside a method, inside a class method, call argument, inside a do-block, if / elsif / unless / while condition, assignment right-hand side), optionally preceded by an unrelated line; --llm-nav --target=foo must report `total callers: 1` and a caller entry naming the call's row; foo's return kind a solver variable; plus 6 shapes with several call sites of one method (total callers = number of call sites)"),
				f4Job("namesakes", "VerifCallGraphNamesakes", 0, []string{"ran"}, []string{"C24-n-kb", "C24-n-other"},
					"the name foo defined at top level, in class Ka and in class Kb (which also defines other), one call site each; --llm-nav with the target a method name defined three times, a class name, a method name defined once: one section per matching definition with its own call row, no section or call of a non-matching one"),
				f4Job("narrowed-sites", "VerifCallGraphNarrowed", 0, []string{"ran"}, []string{"C24-w-kb", "C24-w-count"},
					"classes Ka, Kb (, Kc) each defining run, a method returning their union, and call sites v.run inside branches narrowed by is_a? tests (if/else, if/elsif/else, a call only in the final else, unless/else; inside a method and at top level): --llm-nav --target=run must list each branch's row under exactly one caller entry, and as many caller entries as call sites")}
		},
		Custom:    replayCallGraph,
		Filter:    func(v *Violation) bool { return strings.HasPrefix(v.ID, "C24") },
		Stubs:     append(f4Stubs, "os.Args is set by the harness (cmd.getTarget reads it)"),
		Functions: []string{"ti/eval/method_evaluator.NewMethodEvaluator", "(*ti/eval.IfUnless).getBackupContext", "ti/cmd.printLlmNavDetail", "ti/cmd.PrintLlmNav"},
		Outside:   "callee listing, --all, inherited methods and union receivers",
	})
}
