package main

import (
	"encoding/json"
	"fmt"
	"go/types"
	"os"
	"path/filepath"
	"reflect"
	"sort"
	"strconv"
	"strings"

	"golang.org/x/tools/go/ssa"
)

func mkStrSlice(ss []string) Value {
	el := make([]Value, len(ss))
	for i, s := range ss {
		el[i] = s
	}
	return Slice{arr: &Backing{elems: el}, len: len(el), cap: len(el)}
}

func sliceElems(s Slice) []Value {
	if s.arr == nil {
		return nil
	}
	return s.arr.elems[s.off : s.off+s.len]
}

func bytesOf(v Value) []byte {
	s := v.(Slice)
	out := make([]byte, s.len)
	for i, x := range sliceElems(s) {
		out[i] = byte(x.(int64))
	}
	return out
}

func mkBytes(b []byte) Value {
	el := make([]Value, len(b))
	for i, x := range b {
		el[i] = int64(x)
	}
	return Slice{arr: &Backing{elems: el}, len: len(el), cap: len(el)}
}

func (e *Engine) cs(v Value) string {
	if c, ok := v.(*ChoiceStr); ok {
		return e.concretize(c)
	}
	s, ok := v.(string)
	if !ok {
		panic(pathEnd{kind: "unsupported", msg: fmt.Sprintf("native string op on %T in %s", v, e.curIntr)})
	}
	return s
}

type fileObj struct {
	path string
	data []byte
}

func (e *Engine) pathErr(op, path string) Value {
	// *fs.PathError is not modelled; use an errorString carrying a not-exist marker.
	return e.errorValue(op + " " + path + ": no such file or directory")
}

func registerIntrinsics2(e *Engine) {
	I := e.intr
	I["strings.Split"] = func(e *Engine, fr *frame, a []Value) Value {
		if c, ok := a[0].(*ChoiceStr); ok {
			if r, ok := e.liftSplit(c, e.cs(a[1])); ok {
				return r
			}
		}
		return mkStrSlice(strings.Split(e.cs(a[0]), e.cs(a[1])))
	}
	I["strings.Join"] = func(e *Engine, fr *frame, a []Value) Value {
		var ss []string
		for _, x := range sliceElems(a[0].(Slice)) {
			ss = append(ss, e.cs(x))
		}
		return strings.Join(ss, e.cs(a[1]))
	}
	I["strings.ReplaceAll"] = func(e *Engine, fr *frame, a []Value) Value {
		return e.liftFormat([]Value{a[0], a[1], a[2]}, func(n []interface{}) string {
			return strings.ReplaceAll(n[0].(string), n[1].(string), n[2].(string))
		})
	}
	I["strings.Count"] = func(e *Engine, fr *frame, a []Value) Value {
		if r, ok := a[0].(*Rope); ok {
			sep, ok := a[1].(string)
			if ok && len([]rune(sep)) == 1 {
				// number of elements equal to the separator rune: a sum of ite terms
				sr := []rune(sep)[0]
				acc := e.ts.BV(0, 64)
				for _, el := range r.elems {
					switch el := el.(type) {
					case int64:
						if rune(el) == sr {
							acc = e.ts.Bin("bvadd", acc, e.ts.BV(1, 64))
						}
					case *Term:
						acc = e.ts.Bin("bvadd", acc, e.ts.Ite(e.ts.Cmp("=", el, e.ts.BV(uint64(sr), el.w)), e.ts.BV(1, 64), e.ts.BV(0, 64)))
					}
				}
				if acc.IsConst() {
					return sext(acc.val, 64)
				}
				return acc
			}
		}
		return int64(strings.Count(e.cs(a[0]), e.cs(a[1])))
	}
	I["strings.Index"] = func(e *Engine, fr *frame, a []Value) Value { return int64(strings.Index(e.cs(a[0]), e.cs(a[1]))) }
	I["strconv.Itoa"] = func(e *Engine, fr *frame, a []Value) Value { return strconv.Itoa(int(a[0].(int64))) }
	I["strconv.Atoi"] = func(e *Engine, fr *frame, a []Value) Value {
		v, err := strconv.Atoi(e.cs(a[0]))
		if err != nil {
			return Tuple{int64(v), e.errorValue(err.Error())}
		}
		return Tuple{int64(v), Iface{}}
	}
	I["sort.Strings"] = func(e *Engine, fr *frame, a []Value) Value {
		s := a[0].(Slice)
		el := sliceElems(s)
		ss := make([]string, len(el))
		for i, x := range el {
			ss[i] = e.cs(x)
		}
		sort.Strings(ss)
		for i := range el {
			e.rawStore(&el[i], ss[i])
		}
		return nil
	}
	I["sort.Slice"] = func(e *Engine, fr *frame, a []Value) Value {
		s := a[0].(Iface).v.(Slice)
		el := sliceElems(s)
		less := a[1]
		// insertion sort with interpreted less(i,j) on positions: emulate by swapping in place
		for i := 1; i < len(el); i++ {
			for j := i; j > 0; j-- {
				r := e.call(fr, less, []Value{int64(j), int64(j - 1)}, nil)
				b, ok := r.(bool)
				if !ok {
					b = e.decide(r.(*Term))
				}
				if !b {
					break
				}
				x, y := el[j], el[j-1]
				e.rawStore(&el[j], y)
				e.rawStore(&el[j-1], x)
			}
		}
		return nil
	}
	I["os.Exit"] = func(e *Engine, fr *frame, a []Value) Value {
		panic(pathEnd{kind: "exit", msg: fmt.Sprint(a[0])})
	}
	I["path/filepath.Join"] = func(e *Engine, fr *frame, a []Value) Value {
		var ss []string
		for _, x := range sliceElems(a[0].(Slice)) {
			ss = append(ss, e.cs(x))
		}
		return filepath.Join(ss...)
	}
	I["path/filepath.Glob"] = func(e *Engine, fr *frame, a []Value) Value {
		pat := e.cs(a[0])
		seen := map[string]bool{}
		var out []string
		if !e.vfsOnly(pat) {
			m, err := filepath.Glob(e.realPath(pat))
			if err != nil {
				return Tuple{Slice{}, e.errorValue(err.Error())}
			}
			for _, p := range m {
				rel := e.relPath(p)
				if _, shadow := e.vfs[rel]; !shadow {
					seen[rel] = true
					out = append(out, rel)
				}
			}
		}
		for p, c := range e.vfs {
			if c == vfsDeleted {
				continue
			}
			if ok, _ := filepath.Match(pat, p); ok && !seen[p] {
				out = append(out, p)
			}
		}
		sort.Strings(out)
		if e.globOrder != nil {
			out = e.globOrder(out)
		}
		return Tuple{mkStrSlice(out), Iface{}}
	}
	I["os.ReadFile"] = func(e *Engine, fr *frame, a []Value) Value {
		p := e.cs(a[0])
		if c, ok := e.vfs[filepath.Clean(p)]; ok {
			if c == vfsDeleted {
				return Tuple{Slice{}, e.pathErr("open", p)}
			}
			return Tuple{mkBytes([]byte(c)), Iface{}}
		}
		if e.vfsOnly(p) {
			return Tuple{Slice{}, e.pathErr("open", p)}
		}
		b, err := os.ReadFile(e.realPath(p))
		if err != nil {
			return Tuple{Slice{}, e.pathErr("open", p)}
		}
		return Tuple{mkBytes(b), Iface{}}
	}
	I["os.Open"] = func(e *Engine, fr *frame, a []Value) Value {
		p := e.cs(a[0])
		content, ok := e.vfs[filepath.Clean(p)]
		if ok && content == vfsDeleted {
			ok = false
		}
		if !ok && !e.vfsOnly(p) {
			if b, err := os.ReadFile(e.realPath(p)); err == nil {
				content, ok = string(b), true
			}
		}
		if !ok {
			return Tuple{(*Value)(nil), e.pathErr("open", p)}
		}
		f := new(Value)
		*f = Struct{content} // stand-in for os.File: only the intrinsics below look inside
		return Tuple{f, Iface{}}
	}
	I["(*os.File).Close"] = func(e *Engine, fr *frame, a []Value) Value { return Iface{} }
	I["bufio.NewReader"] = func(e *Engine, fr *frame, a []Value) Value {
		// the reader's buffer field holds the whole content; io.ReadAll below returns it
		content := ""
		if i, ok := a[0].(Iface); ok && i.t != nil {
			if p, ok := i.v.(*Value); ok && p != nil {
				if st, ok := (*p).(Struct); ok && len(st) == 1 {
					content, _ = st[0].(string)
				}
			}
		}
		br := e.prog.ImportedPackage("bufio").Type("Reader").Type()
		r := new(Value)
		z := zero(br).(Struct)
		z[0] = mkBytes([]byte(content))
		*r = z
		return r
	}
	I["io.ReadAll"] = func(e *Engine, fr *frame, a []Value) Value {
		if i, ok := a[0].(Iface); ok && i.t != nil {
			if p, ok := i.v.(*Value); ok && p != nil {
				if st, ok := (*p).(Struct); ok && len(st) > 0 {
					if sl, ok := st[0].(Slice); ok {
						return Tuple{sl, Iface{}}
					}
				}
			}
		}
		return Tuple{Slice{}, Iface{}}
	}
	I["fmt.Fprintf"] = func(e *Engine, fr *frame, a []Value) Value { return Tuple{int64(0), Iface{}} }
	I["os.IsNotExist"] = func(e *Engine, fr *frame, a []Value) Value {
		i := a[0].(Iface)
		if i.t == nil {
			return false
		}
		return strings.Contains(fmt.Sprint(e.nativeArg(i)), "no such file")
	}
	I["encoding/json.Unmarshal"] = func(e *Engine, fr *frame, a []Value) Value {
		data := bytesOf(a[0])
		target := a[1].(Iface)
		var j interface{}
		if err := json.Unmarshal(data, &j); err != nil {
			return e.errorValue(err.Error())
		}
		pt := target.t.Underlying().(*types.Pointer)
		if err := e.jsonFill(fr, target.v.(*Value), pt.Elem(), j); err != nil {
			return e.errorValue(err.Error())
		}
		return Iface{}
	}
	// slices.SortFunc instantiations: matched by prefix in callFunction
}

func (e *Engine) jsonFill(fr *frame, p *Value, t types.Type, j interface{}) error {
	// custom unmarshaler on *T ?
	if _, ok := t.(*types.Named); ok {
		if sel := e.prog.MethodSets.MethodSet(types.NewPointer(t)).Lookup(nil, "UnmarshalJSON"); sel != nil {
			m := e.prog.MethodValue(sel)
			b, _ := json.Marshal(j)
			r := e.callFunction(fr, m, []Value{p, mkBytes(b)}, nil)
			if i, ok := r.(Iface); ok && i.t != nil {
				return fmt.Errorf("%v", e.nativeArg(i))
			}
			return nil
		}
	}
	if j == nil {
		return nil
	}
	switch u := t.Underlying().(type) {
	case *types.Basic:
		switch {
		case u.Info()&types.IsString != 0:
			s, ok := j.(string)
			if !ok {
				return fmt.Errorf("json: cannot unmarshal %T into Go value of type string", j)
			}
			e.rawStore(p, s)
		case u.Info()&types.IsBoolean != 0:
			b, ok := j.(bool)
			if !ok {
				return fmt.Errorf("json: cannot unmarshal %T into bool", j)
			}
			e.rawStore(p, b)
		case u.Info()&types.IsInteger != 0:
			f, ok := j.(float64)
			if !ok {
				return fmt.Errorf("json: cannot unmarshal %T into int", j)
			}
			e.rawStore(p, int64(f))
		default:
			return fmt.Errorf("jsonFill basic %s", u)
		}
	case *types.Slice:
		arr, ok := j.([]interface{})
		if !ok {
			return fmt.Errorf("json: cannot unmarshal %s into Go value of type %s", reflect.TypeOf(j), t)
		}
		el := make([]Value, len(arr))
		for i := range arr {
			el[i] = zero(u.Elem())
			if err := e.jsonFill(fr, &el[i], u.Elem(), arr[i]); err != nil {
				return err
			}
		}
		e.rawStore(p, Slice{arr: &Backing{elems: el}, len: len(el), cap: len(el)})
	case *types.Struct:
		obj, ok := j.(map[string]interface{})
		if !ok {
			return fmt.Errorf("json: cannot unmarshal %T into struct %s", j, t)
		}
		st := (*p).(Struct)
		for i := 0; i < u.NumFields(); i++ {
			f := u.Field(i)
			if !f.Exported() {
				continue
			}
			name := f.Name()
			tag := reflect.StructTag(u.Tag(i)).Get("json")
			if tag == "-" {
				continue
			}
			if n := strings.Split(tag, ",")[0]; n != "" {
				name = n
			}
			v, ok := obj[name]
			if !ok {
				// case-insensitive fallback
				for k, vv := range obj {
					if strings.EqualFold(k, name) {
						v, ok = vv, true
						break
					}
				}
			}
			if !ok {
				continue
			}
			if err := e.jsonFill(fr, &st[i], f.Type(), v); err != nil {
				return err
			}
		}
	case *types.Pointer:
		np := new(Value)
		*np = zero(u.Elem())
		if err := e.jsonFill(fr, np, u.Elem(), j); err != nil {
			return err
		}
		e.rawStore(p, np)
	case *types.Map:
		// map[string]any: not needed by ti's config structs beyond the unused inline field
		return nil
	case *types.Interface:
		return nil
	default:
		return fmt.Errorf("jsonFill: %s", t)
	}
	return nil
}

func (e *Engine) sortFunc(fr *frame, a []Value) Value {
	s := a[0].(Slice)
	el := sliceElems(s)
	cmp := a[1]
	for i := 1; i < len(el); i++ {
		for j := i; j > 0; j-- {
			r := e.call(fr, cmp, []Value{copyVal(el[j]), copyVal(el[j-1])}, nil)
			c, ok := r.(int64)
			if !ok {
				panic(pathEnd{kind: "unsupported", msg: "symbolic comparator result"})
			}
			if c >= 0 {
				break
			}
			x, y := el[j], el[j-1]
			e.rawStore(&el[j], y)
			e.rawStore(&el[j-1], x)
		}
	}
	return nil
}

var _ = ssa.NaiveForm

const vfsDeleted = "\x00<deleted>"

// realPath maps a path used by the code under test to the real file system: relative paths
// are resolved against the engine's root directory (the directory that holds .ti-config).
func (e *Engine) realPath(p string) string {
	if filepath.IsAbs(p) || e.fsRoot == "" {
		return p
	}
	return filepath.Join(e.fsRoot, p)
}

func (e *Engine) relPath(p string) string {
	if e.fsRoot != "" {
		if r, err := filepath.Rel(e.fsRoot, p); err == nil && !strings.HasPrefix(r, "..") {
			return r
		}
	}
	return p
}

// vfsOnly: paths under a virtual-only prefix never fall through to the real file system.
func (e *Engine) vfsOnly(p string) bool {
	for _, pre := range e.vfsOnlyPrefixes {
		if strings.HasPrefix(filepath.Clean(p), pre) {
			return true
		}
	}
	return false
}
