package main

import "strings"

func init() {
	register(&Property{ID: "C12",
		Jobs: func(tier string) []*Job {
			wide := f4Job("stable-wide", "VerifBuiltinStableWide", 0, []string{"ran"}, []string{"C12-probe"},
				"19 programs of builtin calls on symbolic leaves (arrays, hashes, numerics, ranges, strings, Object methods, blocks, union receivers, failing calls) each followed by a 92-line probe that calls 44 shipped builtin methods on fresh literals (every special return form); probe alone vs. probe after the program, plus the deep table comparison")
			wide.Budget = 60000000
			table := &Job{Name: "table", Pkg: "ti", Entry: "VerifBuiltinTable", N: 0, Budget: 60000000, MaxDepth: 300, Reach: []string{"ran"}, Asserts: []string{"C12-table"}, Replay: "kernel", Config: "core",
				Bound: "each of the 13 + 21 C12 programs, evaluated through the four real rounds (evaluationLoop in load mode); afterwards every Builtin-frame method T of TFrame (arguments, return type, variants, overloads, block parameters, flags incl. IsInclude/IsExtend/IsStatic/Defined*) is compared with a snapshot taken before; leaf kinds solver variables; replayed in a natively compiled test binary"}
			tableFull := &Job{Name: "table-full-config", Pkg: "ti", Entry: "VerifBuiltinTable", N: 1, Budget: 60000000, MaxDepth: 300, Reach: []string{"ran"}, Asserts: []string{"C12-table"}, Replay: "kernel", Config: "",
				Bound: "4 programs calling methods that the full shipped configuration declares in frames other than Builtin (Builtin::GPIO, ActiveRecord) with arguments of solver-chosen kinds (6 kinds); afterwards every configured method T of TFrame in a Builtin or non-user frame is compared with a snapshot taken before; replayed in a natively compiled test binary"}
			return []*Job{wide, table, tableFull, f4Job("stable", "VerifBuiltinStable", 0, []string{"ran"}, []string{"C12-probe"},
				"13 (program, probe) pairs: the program calls builtin methods on receivers/arguments of solver-chosen kinds (Sym.a, Sym.b, union Sym.u); the probe uses the same methods on fresh literals; probe alone vs. probe after the program (Snapshot/Restore in one path), plus a deep comparison of every Builtin-frame method T in TFrame before/after")}
		},
		Custom:    replayPair,
		Filter:    func(v *Violation) bool { return strings.HasPrefix(v.ID, "C12") },
		Stubs:     f4Stubs,
		Functions: []string{"ti/eval/method_evaluator.checkAndPropagateArgsForUnionWithReturnT", "ti/eval/method_evaluator.evaluateNoUnionInstanceMethod", "ti/eval/method_evaluator.calculateExecutionType", "(*ti/eval/method_evaluator.arrayAppendStrategy).evaluate", "ti/base.GetMethodT"},
		Outside:   "programs outside the 13 + 19 skeletons; builtin classes outside the core configuration subset",
	})
}
