package main

import "strings"

func init() {
	register(&Property{ID: "C12",
		Jobs: func(tier string) []*Job {
			return []*Job{f4Job("stable", "VerifBuiltinStable", 0, []string{"ran"}, []string{"C12-probe", "C12-table"},
				"9 (program, probe) pairs: the program calls builtin methods on receivers/arguments of solver-chosen kinds (Sym.a, Sym.b, union Sym.u); the probe uses the same methods on fresh literals; probe alone vs. probe after the program (Snapshot/Restore in one path), plus a deep comparison of every Builtin-frame method T in TFrame before/after")}
		},
		Custom:    replayPair,
		Filter:    func(v *Violation) bool { return strings.HasPrefix(v.ID, "C12") },
		Stubs:     f4Stubs,
		Functions: []string{"ti/eval/method_evaluator.checkAndPropagateArgsForUnionWithReturnT", "ti/eval/method_evaluator.evaluateNoUnionInstanceMethod", "ti/eval/method_evaluator.calculateExecutionType", "(*ti/eval/method_evaluator.arrayAppendStrategy).evaluate", "ti/base.GetMethodT"},
		Outside:   "programs outside the 9 skeletons; builtin classes outside the core configuration subset",
	})
}
