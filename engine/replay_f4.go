package main

import (
	"fmt"
	"regexp"
	"strings"
)

var kindLiteral = map[string]string{"NilClass": "nil", "Integer": "1", "String": "\"s\"", "Bool": "true", "Float": "1.5", "Symbol": ":s"}

// concretizeSym rewrites a skeleton program that uses the verification-only class Sym into
// plain Ruby: Sym.a -> a literal of the witnessed kind, Sym.u / Sym.w -> a ternary chain.
func concretizeSym(src string, w map[string]string) (string, bool) {
	ok := true
	re := regexp.MustCompile(`Sym\.([a-z]+)`)
	out := re.ReplaceAllStringFunc(src, func(m string) string {
		name := m[4:]
		kinds, have := w["Sym."+name]
		if !have {
			ok = false
			return m
		}
		var lits []string
		for _, k := range strings.Split(kinds, ",") {
			l, have := kindLiteral[k]
			if !have {
				ok = false
			}
			lits = append(lits, l)
		}
		switch len(lits) {
		case 1:
			return lits[0]
		case 2:
			return "(true ? " + lits[0] + " : " + lits[1] + ")"
		default:
			return "(true ? " + lits[0] + " : (true ? " + lits[1] + " : " + lits[2] + "))"
		}
	})
	return out, ok
}

func lineFor(out string, row string) string {
	prefix := "./a.rb:::" + row + ":::"
	res, n := "", 0
	for _, l := range strings.Split(strings.TrimSuffix(out, "\n"), "\n") {
		if strings.HasPrefix(l, prefix) {
			res = strings.TrimPrefix(l, prefix)
			n++
		}
	}
	if n > 1 {
		return "<many>"
	}
	return res
}

// replayKindsProgram re-judges an F4 counterexample on the native binary: the skeleton is
// made concrete (literals of the witnessed kinds), run through the real ti, and the row the
// violated assertion is about is compared with the expectation computed by the harness.
func replayKindsProgram(n *Native, job *Job, v *Violation) (ReplayResult, bool) {
	if v.Kind != "assert" {
		return ReplayResult{}, false
	}
	src, ok := v.Witness["src"]
	row, ok2 := v.Witness[v.ID+".row"]
	want, ok3 := v.Witness[v.ID+".expect"]
	if !ok || !ok2 || !ok3 {
		return ReplayResult{Observed: "witnesses missing"}, true
	}
	conc, ok := concretizeSym(src, v.Witness)
	if !ok {
		return ReplayResult{Observed: "cannot make the skeleton concrete"}, true
	}
	cfg := ""
	if job.Config != "" {
		cfg = configRoot(job.Config) + "/.ti-config"
	}
	args := []string{"./a.rb"}
	if fl := v.Witness["flags"]; fl != "" {
		args = append(args, strings.Fields(fl)...)
	}
	out, _, _ := n.RunTi(map[string]string{"a.rb": conc}, args, cfg)
	got := lineFor(out, row)
	res := ReplayResult{Cmd: "ti " + strings.Join(args, " ") + "   # program: " + fmt.Sprintf("%q", conc),
		Observed: fmt.Sprintf("row %s: native reports %q, the property demands %q", row, got, want)}
	res.Reproduced = got != want
	v.Witness["native-program"] = conc
	return res, true
}
