package main

import (
	"fmt"
	"os"
	"path/filepath"
	"regexp"
	"sort"
	"strings"
)

var kindLiteral = map[string]string{"NilClass": "nil", "Integer": "1", "String": "\"s\"", "Bool": "true", "Float": "1.5", "Symbol": ":s", "Va": "Va.new", "Vb": "Vb.new"}

// concretizeSym rewrites a skeleton program that uses the verification-only class Sym into
// plain Ruby: Sym.a -> a literal of the witnessed kind, Sym.u / Sym.w -> a ternary chain.
func concretizeSym(src string, w map[string]string) (string, bool) {
	if w["replay-mode"] == "config" {
		return src, true // Sym is declared natively by zz_sym.json (symConfigJSON)
	}
	ok := true
	re := regexp.MustCompile(`Sym\.([a-z]+)`)
	out := re.ReplaceAllStringFunc(src, func(m string) string {
		name := m[4:]
		if name == "kw" {
			return m // configured keyword method: provided natively by an extra config file
		}
		kinds, have := w["Sym."+name]
		if !have {
			ok = false
			return m
		}
		var lits []string
		for _, k := range strings.Split(kinds, ",") {
			l, have := kindLiteral[k]
			if !have {
				ok = false
			}
			lits = append(lits, l)
		}
		switch len(lits) {
		case 1:
			return lits[0]
		case 2:
			return "(true ? " + lits[0] + " : " + lits[1] + ")"
		default:
			return "(true ? " + lits[0] + " : (true ? " + lits[1] + " : " + lits[2] + "))"
		}
	})
	return out, ok
}

func lineFor(out string, row string) string {
	prefix := "./a.rb:::" + row + ":::"
	res, n := "", 0
	for _, l := range strings.Split(strings.TrimSuffix(out, "\n"), "\n") {
		if strings.HasPrefix(l, prefix) {
			res = strings.TrimPrefix(l, prefix)
			n++
		}
	}
	if n > 1 {
		return "<many>"
	}
	return res
}

// replayKindsProgram re-judges an F4 counterexample on the native binary: the skeleton is
// made concrete (literals of the witnessed kinds), run through the real ti, and the row the
// violated assertion is about is compared with the expectation computed by the harness.
func replayKindsProgram(n *Native, job *Job, v *Violation) (ReplayResult, bool) {
	if v.Kind != "assert" || job.Replay == "kernel" {
		return ReplayResult{}, false
	}
	src, ok := v.Witness["src"]
	row, ok2 := v.Witness[v.ID+".row"]
	want, ok3 := v.Witness[v.ID+".expect"]
	if !ok || !ok2 || !ok3 {
		return ReplayResult{Observed: "witnesses missing"}, true
	}
	conc, ok := concretizeSym(src, v.Witness)
	if !ok {
		return ReplayResult{Observed: "cannot make the skeleton concrete"}, true
	}
	cfg := ""
	if job.Config != "" {
		cfg = configRoot(job.Config) + "/.ti-config"
	}
	args := []string{"./a.rb"}
	if fl := v.Witness["flags"]; fl != "" {
		args = append(args, strings.Fields(fl)...)
	}
	out, _, _ := n.RunTi(map[string]string{"a.rb": conc}, args, cfg)
	got := lineFor(out, row)
	res := ReplayResult{Cmd: "ti " + strings.Join(args, " ") + "   # program: " + fmt.Sprintf("%q", conc),
		Observed: fmt.Sprintf("row %s: native reports %q, the property demands %q", row, got, want)}
	res.Reproduced = got != want
	v.Witness["native-program"] = conc
	return res, true
}

func dropShift(out string, at, delta int) string {
	if out == "" {
		return ""
	}
	var sb strings.Builder
	for _, l := range strings.Split(strings.TrimSuffix(out, "\n"), "\n") {
		parts := strings.SplitN(l, ":::", 3)
		if len(parts) < 3 {
			sb.WriteString(l + "\n")
			continue
		}
		row := 0
		fmt.Sscanf(parts[1], "%d", &row)
		switch {
		case row >= at && row < at+delta:
			continue
		case row >= at+delta:
			row -= delta
		}
		fmt.Fprintf(&sb, "%s:::%d:::%s\n", parts[0], row, parts[2])
	}
	return sb.String()
}

// replayPair re-judges a metamorphic counterexample (program A vs. program B = A with lines
// inserted) on the native binary.
func replayPair(n *Native, job *Job, v *Violation) (ReplayResult, bool) {
	srcA, ok := v.Witness["srcA"]
	srcB, ok2 := v.Witness["srcB"]
	if v.Kind != "assert" || !ok || !ok2 {
		return replayKindsProgram(n, job, v)
	}
	var at, delta int
	fmt.Sscanf(v.Witness[v.ID+".at"], "%d", &at)
	fmt.Sscanf(v.Witness[v.ID+".delta"], "%d", &delta)
	ca, okA := concretizeSym(srcA, v.Witness)
	cb, okB := concretizeSym(srcB, v.Witness)
	if !okA || !okB {
		return ReplayResult{Observed: "cannot make the skeleton concrete"}, true
	}
	cfg := nativeConfigFor(n, job, srcA)
	args := []string{"./a.rb"}
	if fl := v.Witness["flags"]; fl != "" {
		args = append(args, strings.Fields(fl)...)
	}
	outA, _, _ := n.RunTi(map[string]string{"a.rb": ca}, args, cfg)
	outB, _, _ := n.RunTi(map[string]string{"a.rb": cb}, args, cfg)
	norm := dropShift(outB, at, delta)
	v.Witness["native-program-A"] = ca
	v.Witness["native-program-B"] = cb
	res := ReplayResult{Cmd: "ti " + strings.Join(args, " ") + " on program A and on program B (B = A with " + fmt.Sprint(delta) + " line(s) inserted before row " + fmt.Sprint(at) + ")",
		Observed: fmt.Sprintf("A reports %q; B (rows shifted back) reports %q", outA, norm)}
	res.Reproduced = norm != outA && !(strings.TrimSpace(norm) == strings.TrimSpace(outA))
	return res, true
}

// replayKindsProgramAlts is replayKindsProgram for expectations that list several
// acceptable renderings (comma-separated in the witness).
func replayKindsProgramAlts(n *Native, job *Job, v *Violation) (ReplayResult, bool) {
	rr, handled := replayKindsProgram(n, job, v)
	if !handled || v.Kind != "assert" {
		return rr, handled
	}
	want := v.Witness[v.ID+".expect"]
	row := v.Witness[v.ID+".row"]
	if strings.Contains(rr.Observed, "native reports") {
		// recompute against the list of alternatives
		conc := v.Witness["native-program"]
		cfg := ""
		if job.Config != "" {
			cfg = configRoot(job.Config) + "/.ti-config"
		}
		out, _, _ := n.RunTi(map[string]string{"a.rb": conc}, []string{"./a.rb"}, cfg)
		got := lineFor(out, row)
		ok := false
		for _, a := range strings.Split(want, ",") {
			if got == a {
				ok = true
			}
		}
		rr.Reproduced = !ok
		rr.Observed = fmt.Sprintf("row %s: native reports %q, the reference model allows %q", row, got, want)
	}
	return rr, true
}

// replayRename re-judges a renaming counterexample natively.
func replayRename(n *Native, job *Job, v *Violation) (ReplayResult, bool) {
	srcA, ok := v.Witness["srcA"]
	srcB, ok2 := v.Witness["srcB"]
	if v.Kind != "assert" || !ok || !ok2 {
		return ReplayResult{}, false
	}
	ca, okA := concretizeSym(srcA, v.Witness)
	cb, okB := concretizeSym(srcB, v.Witness)
	if !okA || !okB {
		return ReplayResult{Observed: "cannot make the skeleton concrete"}, true
	}
	cfg := ""
	if job.Config != "" {
		cfg = configRoot(job.Config) + "/.ti-config"
	}
	outA, _, _ := n.RunTi(map[string]string{"a.rb": ca}, []string{"./a.rb"}, cfg)
	outB, _, _ := n.RunTi(map[string]string{"a.rb": cb}, []string{"./a.rb"}, cfg)
	want := strings.ReplaceAll(outA, v.Witness["rename-from"], v.Witness["rename-to"])
	v.Witness["native-program-A"] = ca
	v.Witness["native-program-B"] = cb
	return ReplayResult{Cmd: "ti ./a.rb on both programs", Reproduced: outB != want,
		Observed: fmt.Sprintf("original reports %q; renamed reports %q, expected %q", outA, outB, want)}, true
}

// replayPairNoSym: pair replay for skeletons that may call configured Sym methods which have
// no plain-Ruby equivalent (Sym.kw): those counterexamples can only be replayed when the
// program does not use them.
func replayPairNoSym(n *Native, job *Job, v *Violation) (ReplayResult, bool) {
	return replayPair(n, job, v)
}

const symKwJSON = `{"frame": "Builtin", "class": "Sym", "instance_methods": [], "class_methods": [
 {"name": "kw", "arguments": [{"type": ["Int"]}, {"type": ["Int"], "key": "ka:"}, {"type": ["String"], "key": "kb:"}, {"type": ["Int"], "key": "kc:", "is_default": true}], "return_type": {"type": ["Int"]}}]}`

var kindNotation = map[string]string{"NilClass": "NilClass", "Integer": "Int", "String": "String", "Bool": "Bool", "Float": "Float", "Symbol": "Symbol", "Va": "Va", "Vb": "Vb"}

// symConfigJSON declares the verification-only class Sym natively: a configuration file in
// which Sym.a/b/c/u/w return the kinds of the witness (and Sym.kw as in symKwJSON). Used for
// the second replay attempt: a literal in place of `Sym.x` can hide a defect that needs the
// value to come from a call.
func symConfigJSON(w map[string]string) (string, bool) {
	var ms []string
	for _, name := range []string{"a", "b", "c", "n", "o", "u", "w"} {
		kinds, have := w["Sym."+name]
		if !have {
			continue
		}
		var ts []string
		for _, k := range strings.Split(kinds, ",") {
			nt, ok := kindNotation[k]
			if !ok {
				return "", false
			}
			ts = append(ts, fmt.Sprintf("%q", nt))
		}
		ms = append(ms, fmt.Sprintf(`{"name": %q, "arguments": [], "return_type": {"type": [%s]}}`, name, strings.Join(ts, ", ")))
	}
	if len(ms) == 0 {
		return "", false
	}
	ms = append(ms, `{"name": "kw", "arguments": [{"type": ["Int"]}, {"type": ["Int"], "key": "ka:"}, {"type": ["String"], "key": "kb:"}, {"type": ["Int"], "key": "kc:", "is_default": true}], "return_type": {"type": ["Int"]}}`)
	return `{"frame": "Builtin", "class": "Sym", "instance_methods": [], "class_methods": [` + strings.Join(ms, ", ") + `]}`, true
}

// nativeConfigFor returns the .ti-config directory to use natively for a job; programs that
// call Sym.kw get the job's configuration plus a file declaring that method.
func nativeConfigFor(n *Native, job *Job, src string) string {
	base := filepath.Join(configRoot(job.Config), ".ti-config")
	if !strings.Contains(src, "Sym.kw") {
		if job.Config == "" {
			return ""
		}
		return base
	}
	dir := filepath.Join(n.Dir, "cfg-symkw-"+job.Config)
	if _, err := os.Stat(dir); err != nil {
		os.MkdirAll(dir, 0o755)
		ents, _ := os.ReadDir(base)
		for _, e := range ents {
			real, err := filepath.EvalSymlinks(filepath.Join(base, e.Name()))
			if err == nil {
				os.Symlink(real, filepath.Join(dir, e.Name()))
			}
		}
		os.WriteFile(filepath.Join(dir, "zz_sym.json"), []byte(symKwJSON), 0o644)
	}
	return dir
}

// replayCovers re-judges "covers"/"demand" expectations natively.
func replayCovers(n *Native, job *Job, v *Violation) (ReplayResult, bool) {
	if v.Kind != "assert" {
		return ReplayResult{}, false
	}
	src, ok := v.Witness["src"]
	row, ok2 := v.Witness[v.ID+".row"]
	if !ok || !ok2 {
		return replayKindsProgram(n, job, v)
	}
	conc, okc := concretizeSym(src, v.Witness)
	if !okc {
		return ReplayResult{Observed: "cannot make the skeleton concrete"}, true
	}
	out, _, _ := n.RunTi(map[string]string{"a.rb": conc}, []string{"./a.rb"}, nativeConfigFor(n, job, src))
	got := lineFor(out, row)
	v.Witness["native-program"] = conc
	res := ReplayResult{Cmd: "ti ./a.rb   # " + fmt.Sprintf("%q", conc)}
	if mh, have := v.Witness[v.ID+".musthave"]; have {
		okAll := true
		for _, k := range strings.Split(mh, ",") {
			if !strings.Contains(got, k) {
				okAll = false
			}
		}
		res.Reproduced = !okAll
		res.Observed = fmt.Sprintf("row %s: native reports %q, which must name all of %s", row, got, mh)
		return res, true
	}
	if cov, have := v.Witness[v.ID+".covers"]; have {
		ok := got == "untyped"
		if !ok {
			ok = true
			for _, k := range strings.Split(cov, ",") {
				if k != "" && !strings.Contains(got, k) {
					ok = false
				}
			}
		}
		res.Reproduced = !ok
		res.Observed = fmt.Sprintf("row %s: native reports %q, which must name all of %q", row, got, cov)
		return res, true
	}
	switch v.Witness[v.ID+".demand"] {
	case "diagnostic":
		res.Reproduced = got == ""
	case "none":
		res.Reproduced = got != ""
	default:
		return replayKindsProgram(n, job, v)
	}
	res.Observed = fmt.Sprintf("row %s: native reports %q, the property demands: %s", row, got, v.Witness[v.ID+".demand"])
	return res, true
}

func isTypeName(s string) bool {
	switch s {
	case "NilClass", "Integer", "String", "Bool", "Float", "Symbol":
		return true
	}
	return false
}

// replayDemand: replayKindsProgram + "demand" expectations (a diagnostic that is not a type).
func replayDemand(n *Native, job *Job, v *Violation) (ReplayResult, bool) {
	if v.Kind != "assert" {
		return ReplayResult{}, false
	}
	if d, have := v.Witness[v.ID+".demand"]; have && strings.HasPrefix(d, "not:") {
		src := v.Witness["src"]
		row := v.Witness[v.ID+".row"]
		conc, okc := concretizeSym(src, v.Witness)
		if !okc {
			return ReplayResult{Observed: "cannot make the skeleton concrete"}, true
		}
		out, _, _ := n.RunTi(map[string]string{"a.rb": conc}, []string{"./a.rb"}, nativeConfigFor(n, job, src))
		got := lineFor(out, row)
		v.Witness["native-program"] = conc
		return ReplayResult{Cmd: "ti ./a.rb", Reproduced: got == d[4:], Observed: fmt.Sprintf("row %s: native reports %q, which the property forbids", row, got)}, true
	}
	if d, have := v.Witness[v.ID+".demand"]; have && d == "diagnostic-not-a-type" {
		src := v.Witness["src"]
		row := v.Witness[v.ID+".row"]
		conc, okc := concretizeSym(src, v.Witness)
		if !okc {
			return ReplayResult{Observed: "cannot make the skeleton concrete"}, true
		}
		out, _, _ := n.RunTi(map[string]string{"a.rb": conc}, []string{"./a.rb"}, nativeConfigFor(n, job, src))
		got := lineFor(out, row)
		v.Witness["native-program"] = conc
		bad := got == "" || isTypeName(got)
		if v.ID == "C16-new" {
			bad = bad || !strings.Contains(got, " ")
		}
		return ReplayResult{Cmd: "ti ./a.rb", Reproduced: bad, Observed: fmt.Sprintf("row %s: native reports %q, the property demands a diagnostic", row, got)}, true
	}
	return replayKindsProgramAlts(n, job, v)
}

// replayExtraConfig re-judges a C20 counterexample natively: the program under the job's
// configuration vs. the same configuration plus the witnessed extra file.
func replayExtraConfig(n *Native, job *Job, v *Violation) (ReplayResult, bool) {
	src, ok := v.Witness["src"]
	extra, ok2 := v.Witness["extra-config"]
	if v.Kind != "assert" || !ok || !ok2 {
		return ReplayResult{}, false
	}
	conc, okc := concretizeSym(src, v.Witness)
	if !okc {
		return ReplayResult{Observed: "cannot make the skeleton concrete"}, true
	}
	base := filepath.Join(configRoot(job.Config), ".ti-config")
	dir, _ := os.MkdirTemp(n.Dir, "cfg-extra-")
	ents, _ := os.ReadDir(base)
	for _, e := range ents {
		real, err := filepath.EvalSymlinks(filepath.Join(base, e.Name()))
		if err == nil {
			os.Symlink(real, filepath.Join(dir, e.Name()))
		}
	}
	os.WriteFile(filepath.Join(dir, "zz_extra.json"), []byte(extra), 0o644)
	args := []string{"./a.rb"}
	if fl := v.Witness["flags"]; fl != "" {
		args = append(args, strings.Fields(fl)...)
	}
	outA, _, _ := n.RunTi(map[string]string{"a.rb": conc}, args, base)
	outB, _, _ := n.RunTi(map[string]string{"a.rb": conc}, args, dir)
	v.Witness["native-program"] = conc
	return ReplayResult{Cmd: "ti " + strings.Join(args, " ") + " with and without .ti-config/zz_extra.json", Reproduced: outA != outB,
		Observed: fmt.Sprintf("without the extra file: %q; with it: %q", outA, outB)}, true
}

func hasLine(out, prefix, suffix string) bool {
	for _, l := range strings.Split(strings.TrimSuffix(out, "\n"), "\n") {
		if strings.HasPrefix(l, prefix) && strings.HasSuffix(l, suffix) {
			return true
		}
	}
	return false
}

// replayDefineInfo re-judges C22 counterexamples natively (flags from the witness).
func replayDefineInfo(n *Native, job *Job, v *Violation) (ReplayResult, bool) {
	if v.Kind != "assert" {
		return ReplayResult{}, false
	}
	src := v.Witness["src"]
	conc, okc := concretizeSym(src, v.Witness)
	if !okc {
		return ReplayResult{Observed: "cannot make the skeleton concrete"}, true
	}
	args := []string{"./a.rb"}
	prefix, suffix := v.Witness[v.ID+".prefix"], v.Witness[v.ID+".suffix"]
	if v.ID == "C22-hover" {
		args = append(args, "--hover", "--row="+v.Witness["C22-hover.row"])
		prefix = "%" + v.Witness["C22-hover.method"] + ":::"
	} else {
		args = append(args, strings.Fields(v.Witness["flags"])...)
	}
	out, _, _ := n.RunTi(map[string]string{"a.rb": conc}, args, nativeConfigFor(n, job, src))
	v.Witness["native-program"] = conc
	return ReplayResult{Cmd: "ti " + strings.Join(args, " "), Reproduced: !hasLine(out, prefix, suffix),
		Observed: fmt.Sprintf("expected a line %q...%q in %q", prefix, suffix, tail(out, 600))}, true
}

// replayCallGraph re-judges C24 counterexamples natively.
func replayCallGraph(n *Native, job *Job, v *Violation) (ReplayResult, bool) {
	if v.Kind != "assert" {
		return ReplayResult{}, false
	}
	src := v.Witness["src"]
	conc, okc := concretizeSym(src, v.Witness)
	if !okc {
		return ReplayResult{Observed: "cannot make the skeleton concrete"}, true
	}
	args := append([]string{"./a.rb"}, strings.Fields(v.Witness["flags"])...)
	out, _, _ := n.RunTi(map[string]string{"a.rb": conc}, args, nativeConfigFor(n, job, src))
	v.Witness["native-program"] = conc
	if l, ok := v.Witness[v.ID+".line"]; ok {
		return ReplayResult{Cmd: "ti " + strings.Join(args, " "), Reproduced: !hasLine(out, l, ""), Observed: fmt.Sprintf("expected a line %q in %q", l, tail(out, 900))}, true
	}
	if l, ok := v.Witness[v.ID+".noline"]; ok {
		return ReplayResult{Cmd: "ti " + strings.Join(args, " "), Reproduced: hasLine(out, l, ""), Observed: fmt.Sprintf("expected no line %q in %q", l, tail(out, 900))}, true
	}
	if c, ok := v.Witness[v.ID+".count"]; ok {
		var k int
		fmt.Sscanf(c, "%d", &k)
		of := "  - total callers: 1\n"
		if o, ok := v.Witness[v.ID+".of"]; ok {
			of = o
		}
		return ReplayResult{Cmd: "ti " + strings.Join(args, " "), Reproduced: strings.Count(out, of) != k, Observed: fmt.Sprintf("expected %d occurrences of %q in %q", k, of, tail(out, 900))}, true
	}
	want := "  - total callers: 1"
	if k := v.Witness["C24.sites"]; k != "" {
		want = "  - total callers: " + k
	}
	if v.ID == "C24-row" {
		want = "    - call point: ./a.rb:" + v.Witness["C24.callrow"]
	}
	return ReplayResult{Cmd: "ti " + strings.Join(args, " "), Reproduced: !hasLine(out, want, ""),
		Observed: fmt.Sprintf("expected a line %q in %q", want, tail(out, 700))}, true
}

// replayNamespaces re-judges C27 counterexamples natively.
func replayNamespaces(n *Native, job *Job, v *Violation) (ReplayResult, bool) {
	if v.Kind != "assert" {
		return ReplayResult{}, false
	}
	var wrap int
	fmt.Sscanf(v.Witness["C27.wrap"], "%d", &wrap)
	if wrap == 0 {
		return replayPair(n, job, v)
	}
	qual := v.Witness["C27.qual"]
	ca, okA := concretizeSym(v.Witness["srcA"], v.Witness)
	cb, okB := concretizeSym(v.Witness["srcB"], v.Witness)
	if !okA || !okB {
		return ReplayResult{Observed: "cannot make the skeleton concrete"}, true
	}
	var glines int
	fmt.Sscanf(v.Witness["C27.glines"], "%d", &glines)
	cfg := nativeConfigFor(n, job, ca)
	outA, _, _ := n.RunTi(map[string]string{"a.rb": ca}, []string{"./a.rb"}, cfg)
	outB, _, _ := n.RunTi(map[string]string{"a.rb": cb}, []string{"./a.rb"}, cfg)
	nb := dropShift(dropShift(strings.ReplaceAll(outB, qual, ""), glines+wrap+1, wrap), 1, wrap)
	v.Witness["native-program-A"] = ca
	v.Witness["native-program-B"] = cb
	return ReplayResult{Cmd: "ti ./a.rb on the top-level and on the module-wrapped program", Reproduced: nb != outA,
		Observed: fmt.Sprintf("top level reports %q; wrapped (rows shifted back, %s removed) reports %q", outA, qual, nb)}, true
}

// replaySuggest re-judges C23 counterexamples natively.
func replaySuggest(n *Native, job *Job, v *Violation) (ReplayResult, bool) {
	if v.Kind != "assert" {
		return ReplayResult{}, false
	}
	src := v.Witness["src"]
	conc, okc := concretizeSym(src, v.Witness)
	if !okc {
		return ReplayResult{Observed: "cannot make the skeleton concrete"}, true
	}
	args := append([]string{"./a.rb"}, strings.Fields(v.Witness["flags"])...)
	out, _, _ := n.RunTi(map[string]string{"a.rb": conc}, args, nativeConfigFor(n, job, src))
	v.Witness["native-program"] = conc
	res := ReplayResult{Cmd: "ti " + strings.Join(args, " ")}
	if m, ok := v.Witness[v.ID+".must"]; ok {
		res.Reproduced = !hasLine(out, "%"+m+":::", "")
		res.Observed = fmt.Sprintf("method %q must be listed; native lists %d lines", m, strings.Count(out, "\n"))
	} else if m, ok := v.Witness[v.ID+".mustnot"]; ok {
		res.Reproduced = hasLine(out, "%"+m+":::", "")
		res.Observed = fmt.Sprintf("method %q must not be listed", m)
	}
	return res, true
}

// replayModes replays a C04 counterexample on the native binary: crash, hang or a malformed
// output line in an editor query mode at the witnessed row.
func replayModes(n *Native, job *Job, v *Violation) (ReplayResult, bool) {
	src, ok := v.Witness["src"]
	if !ok {
		return ReplayResult{Observed: "no src witness"}, true
	}
	args := []string{"./a.rb", v.Witness["mode"], "--row=" + v.Witness["row"]}
	cfg := nativeConfigFor(n, job, src)
	res := ReplayResult{Cmd: "ti " + strings.Join(args, " ")}
	switch {
	case strings.HasPrefix(v.Kind, "panic"):
		out, code, _ := n.RunTi(map[string]string{"a.rb": src}, args, cfg)
		res.Observed = tail(out, 900)
		res.Reproduced = code != 0 && (strings.Contains(out, "panic:") || strings.Contains(out, "fatal error:"))
	case v.Kind == "budget":
		hung := 0
		for i := 0; i < 3; i++ {
			out, _, capHit := n.RunTi(map[string]string{"a.rb": src}, args, cfg)
			res.Observed = tail(out, 300)
			if isTimeoutOut(out) || capHit {
				hung++
			}
		}
		res.Reproduced = hung == 3
	default:
		out, code, _ := n.RunTi(map[string]string{"a.rb": src}, args, cfg)
		res.Observed = tail(out, 600)
		bad := false
		if code == 0 && out != "" {
			for _, l := range strings.Split(strings.TrimSuffix(out, "\n"), "\n") {
				if !(strings.HasPrefix(l, "%") || strings.HasPrefix(l, "@") || strings.HasPrefix(l, "$") || strings.HasPrefix(l, "./a.rb:::")) {
					bad = true
				}
			}
		}
		res.Reproduced = bad
	}
	return res, true
}

// replayDeterminism re-judges a C05 program-level counterexample natively: the same command
// is run repeatedly (fresh map randomisation per process) until two outputs differ.
func replayDeterminism(n *Native, job *Job, v *Violation) (ReplayResult, bool) {
	src, ok := v.Witness["src"]
	if v.Kind != "assert" || !ok {
		return ReplayResult{}, false
	}
	args := append([]string{"./a.rb"}, strings.Fields(v.Witness["flags"])...)
	cfg := nativeConfigFor(n, job, src)
	isDefine := strings.Contains(v.Witness["flags"], "--define")
	norm := func(s string) string {
		if !isDefine {
			return s
		}
		ls := strings.Split(s, "\n")
		sort.Strings(ls)
		return strings.Join(ls, "\n")
	}
	first, _, _ := n.RunTi(map[string]string{"a.rb": src}, args, cfg)
	res := ReplayResult{Cmd: "ti " + strings.Join(args, " ") + "   (repeated up to 40 times)"}
	for i := 0; i < 40; i++ {
		out, _, _ := n.RunTi(map[string]string{"a.rb": src}, args, cfg)
		if isTimeoutOut(out) || isTimeoutOut(first) {
			continue
		}
		if norm(out) != norm(first) {
			res.Reproduced = true
			res.Observed = fmt.Sprintf("two runs of the same command printed different output (run 1 vs run %d); first difference near: %q vs %q", i+2, firstDiff(first, out), firstDiff(out, first))
			return res, true
		}
	}
	res.Observed = "40 native runs printed identical output"
	return res, true
}

func firstDiff(a, b string) string {
	la, lb := strings.Split(a, "\n"), strings.Split(b, "\n")
	for i := range la {
		if i >= len(lb) || la[i] != lb[i] {
			return la[i]
		}
	}
	return ""
}

// replayPreload re-judges a C18 counterexample natively: the concatenated program vs. the
// target with .ti-loader.json and the preload files in the working directory.
func replayPreload(n *Native, job *Job, v *Violation) (ReplayResult, bool) {
	whole, ok := v.Witness["whole"]
	if v.Kind != "assert" || !ok {
		return ReplayResult{}, false
	}
	cw, ok1 := concretizeSym(whole, v.Witness)
	ct, ok2 := concretizeSym(v.Witness["target"], v.Witness)
	p0, ok3 := concretizeSym(v.Witness["pre0"], v.Witness)
	if !ok1 || !ok2 || !ok3 {
		return ReplayResult{Observed: "cannot make the skeleton concrete"}, true
	}
	n0, n1 := v.Witness["C18.name0"], v.Witness["C18.name1"]
	if n0 == "" {
		n0, n1 = "p0.rb", "p1.rb"
	}
	files := map[string]string{"a.rb": ct, n0: p0, ".ti-loader.json": `{"preload": ["` + n0 + `"]}`}
	if p1, have := v.Witness["pre1"]; have {
		c1, _ := concretizeSym(p1, v.Witness)
		files[n1] = c1
		files[".ti-loader.json"] = `{"preload": ["` + n0 + `", "` + n1 + `"]}`
	}
	var pre int
	fmt.Sscanf(v.Witness["C18.prelines"], "%d", &pre)
	cfg := nativeConfigFor(n, job, whole)
	args := []string{"./a.rb"}
	if fl := v.Witness["flags"]; fl != "" {
		args = append(args, strings.Fields(fl)...)
	}
	outWhole, _, _ := n.RunTi(map[string]string{"a.rb": cw}, args, cfg)
	outSplit, _, _ := n.RunTi(files, args, cfg)
	want := dropShift(outWhole, 1, pre)
	res := ReplayResult{Cmd: "ti ./a.rb with .ti-loader.json + preload files vs. ti on the concatenation",
		Observed: fmt.Sprintf("concatenation (target part, rebased): %q; preload run: %q", want, outSplit)}
	if v.ID == "C18-hidden" {
		res.Reproduced = strings.Contains(outSplit, n0) || strings.Contains(outSplit, n1)
	} else {
		res.Reproduced = outSplit != want
	}
	return res, true
}

const c19Pa = `{"frame": "Builtin", "class": "Pa", "instance_methods": [
 {"name": "m", "arguments": [{"type": ["Int"]}], "return_type": {"type": ["Int"]}},
 {"name": "m", "arguments": [{"type": ["String"]}], "return_type": {"type": ["String"]}},
 {"name": "only_pa", "arguments": [{"type": ["Int"]}, {"type": ["DefaultString"]}], "return_type": {"type": ["Bool"]}}],
 "class_methods": [{"name": "new", "arguments": [], "return_type": {"type": ["Pa"]}}]}`
const c19Ch = `{"frame": "Builtin", "class": "Ch", "extends": ["Pa"], "instance_methods": [
 {"name": "m", "arguments": [{"type": ["Symbol"]}], "return_type": {"type": ["Symbol"]}},
 {"name": "k", "arguments": [], "return_type": {"type": ["Float"]}}],
 "class_methods": [{"name": "new", "arguments": [], "return_type": {"type": ["Ch"]}}]}`
const c19Gc = `{"frame": "Builtin", "class": "Gc", "extends": ["Ch"], "instance_methods": [],
 "class_methods": [{"name": "new", "arguments": [], "return_type": {"type": ["Gc"]}}]}`

// replayConfigOrder re-judges a C19 counterexample natively: the probe program under the job's
// configuration plus the three reference files vs. plus the witnessed renamed / split files.
func replayConfigOrder(n *Native, job *Job, v *Violation) (ReplayResult, bool) {
	src, ok := v.Witness["src"]
	filesW, ok2 := v.Witness["C19.files"]
	if v.Kind != "assert" || !ok || !ok2 {
		return ReplayResult{}, false
	}
	conc, okc := concretizeSym(src, v.Witness)
	if !okc {
		return ReplayResult{Observed: "cannot make the skeleton concrete"}, true
	}
	base := filepath.Join(configRoot(job.Config), ".ti-config")
	mk := func(files map[string]string) string {
		dir, _ := os.MkdirTemp(n.Dir, "cfg-c19-")
		ents, _ := os.ReadDir(base)
		for _, e := range ents {
			if real, err := filepath.EvalSymlinks(filepath.Join(base, e.Name())); err == nil {
				// the harness loads the generated files after the shipped ones: keep that order
				os.Symlink(real, filepath.Join(dir, "0_"+e.Name()))
			}
		}
		for name, c := range files {
			os.WriteFile(filepath.Join(dir, "z_"+name), []byte(c), 0o644)
		}
		return dir
	}
	ref := mk(map[string]string{"a_pa.json": c19Pa, "b_ch.json": c19Ch, "c_gc.json": c19Gc})
	other := map[string]string{}
	for _, rec := range strings.Split(filesW, "\x1d") {
		if parts := strings.SplitN(rec, "\x1e", 2); len(parts) == 2 {
			other[parts[0]] = parts[1]
		}
	}
	oth := mk(other)
	outRef, _, _ := n.RunTi(map[string]string{"a.rb": conc}, []string{"./a.rb"}, ref)
	outOth, _, _ := n.RunTi(map[string]string{"a.rb": conc}, []string{"./a.rb"}, oth)
	return ReplayResult{Cmd: "ti ./a.rb under two layouts of the same declarations", Reproduced: outRef != outOth,
		Observed: fmt.Sprintf("reference layout: %q; other layout: %q", outRef, outOth)}, true
}

// replayNotationSites re-judges C21-sites natively (kernel jobs are left to ReplayKernel).
func replayNotationSites(n *Native, job *Job, v *Violation) (ReplayResult, bool) {
	if job.Replay == "kernel" {
		return ReplayResult{}, false
	}
	return replayRename(n, job, v)
}
