package main

import (
	"os"
	"fmt"
	"go/types"
	"path/filepath"
	"sort"
	"strconv"
	"strings"
	"sync"
	"unicode"

	"golang.org/x/tools/go/ssa"
)

type interval struct{ lo, hi rune }

var uniTables = map[string][]interval{}
var uniMu sync.Mutex

func buildUni(name string, f func(rune) bool) {
	uniMu.Lock()
	defer uniMu.Unlock()
	if _, ok := uniTables[name]; ok {
		return
	}
	var out []interval
	in := false
	var lo rune
	for r := rune(0); r <= unicode.MaxRune; r++ {
		if f(r) {
			if !in {
				in = true
				lo = r
			}
		} else if in {
			in = false
			out = append(out, interval{lo, r - 1})
		}
	}
	if in {
		out = append(out, interval{lo, unicode.MaxRune})
	}
	uniTables[name] = out
}

func (e *Engine) uniPred(name string, f func(rune) bool) func(*Engine, *frame, []Value) Value {
	buildUni(name, f)
	return func(e *Engine, fr *frame, args []Value) Value {
		switch r := args[0].(type) {
		case int64:
			return f(rune(r))
		case *Term:
			acc := e.ts.Bool(false)
			for _, iv := range uniTables[name] {
				lo := e.ts.BV(uint64(iv.lo), 32)
				hi := e.ts.BV(uint64(iv.hi), 32)
				var c *Term
				if iv.lo == iv.hi {
					c = e.ts.Cmp("=", r, lo)
				} else {
					c = e.ts.And(e.ts.Cmp("bvule", lo, r), e.ts.Cmp("bvule", r, hi))
				}
				acc = e.ts.Or(acc, c)
			}
			return termOrBool(acc)
		}
		panic("uniPred arg")
	}
}

func goNative(v Value) interface{} {
	switch v := v.(type) {
	case Iface:
		if v.t == nil {
			return nil
		}
		return goNative(v.v)
	case *Rope:
		return v.String()
	case *ChoiceStr:
		return v.String()
	case *Term:
		return "<" + v.SMT() + ">"
	}
	return v
}

func (e *Engine) errorValue(msg Value) Value {
	pkg := e.prog.ImportedPackage("errors")
	named := pkg.Type("errorString").Type()
	p := new(Value)
	*p = Struct{msg}
	return Iface{t: types.NewPointer(named), v: p}
}

func (e *Engine) sprintf(args []Value) Value {
	format := args[0].(string)
	va := args[1].(Slice)
	return e.liftFormat(sliceElems(va), func(nat []interface{}) string { return fmt.Sprintf(format, nat...) })
}

// liftFormat formats args natively; ChoiceStr arguments (also inside error values) are
// lifted over the cross product of their alternatives.
func (e *Engine) liftFormat(els []Value, f func([]interface{}) string) Value {
	nat := make([]interface{}, len(els))
	type slot struct {
		i     int
		c     *ChoiceStr
		isErr bool
	}
	var slots []slot
	for i, el := range els {
		x := e.nativeArgV(el)
		switch x := x.(type) {
		case *ChoiceStr:
			slots = append(slots, slot{i, x, false})
		case errChoice:
			slots = append(slots, slot{i, x.c, true})
		default:
			nat[i] = x
		}
	}
	if len(slots) == 0 {
		return f(nat)
	}
	guards := []*Term{e.ts.Bool(true)}
	alts := [][]interface{}{nat}
	for _, s := range slots {
		var ng []*Term
		var na [][]interface{}
		for gi, g := range guards {
			for ai, a := range s.c.alts {
				gg := e.ts.And(g, s.c.guards[ai])
				if gg.op == "false" {
					continue
				}
				cp := append([]interface{}(nil), alts[gi]...)
				if s.isErr {
					cp[s.i] = fmt.Errorf("%s", a)
				} else {
					cp[s.i] = a
				}
				ng = append(ng, gg)
				na = append(na, cp)
			}
		}
		if len(ng) > 2048 {
			panic(pathEnd{kind: "unsupported", msg: "format cross product too large"})
		}
		guards, alts = ng, na
	}
	strs := make([]string, len(alts))
	for i, a := range alts {
		strs[i] = f(a)
	}
	return e.mkChoiceG(guards, strs)
}

type errChoice struct{ c *ChoiceStr }

// nativeArgV is nativeArg but keeps ChoiceStr (and errors whose message is a ChoiceStr) symbolic.
func (e *Engine) nativeArgV(el Value) interface{} {
	if i, ok := el.(Iface); ok {
		if i.t == nil {
			return nil
		}
		if sel := e.prog.MethodSets.MethodSet(i.t).Lookup(nil, "Error"); sel != nil {
			if m := e.prog.MethodValue(sel); m != nil {
				r := e.callFunction(nil, m, []Value{i.v}, nil)
				if c, ok := r.(*ChoiceStr); ok {
					return errChoice{c}
				}
				return fmt.Errorf("%v", goNative(r))
			}
		}
		if c, ok := i.v.(*ChoiceStr); ok {
			return c
		}
		return e.nativeArg(el)
	}
	if c, ok := el.(*ChoiceStr); ok {
		return c
	}
	return e.nativeArg(el)
}

func (e *Engine) nativeArg(el Value) interface{} {
	if i, ok := el.(Iface); ok {
		if i.t == nil {
			return nil
		}
		// error / Stringer: call Error()
		if sel := e.prog.MethodSets.MethodSet(i.t).Lookup(nil, "Error"); sel != nil {
			if m := e.prog.MethodValue(sel); m != nil {
				r := e.callFunction(nil, m, []Value{i.v}, nil)
				return fmt.Errorf("%v", goNative(r))
			}
		}
		if b, ok := i.t.Underlying().(*types.Basic); ok && b.Info()&types.IsInteger != 0 {
			if x, ok := i.v.(int64); ok {
				w, s := intWidth(b)
				if w == 32 && s {
					return int32(x)
				}
				return x
			}
		}
		return goNative(i.v)
	}
	return goNative(el)
}

func registerIntrinsics(e *Engine) {
	I := e.intr
	I["unicode.IsSpace"] = e.uniPred("IsSpace", unicode.IsSpace)
	I["unicode.IsDigit"] = e.uniPred("IsDigit", unicode.IsDigit)
	I["unicode.IsUpper"] = e.uniPred("IsUpper", unicode.IsUpper)
	I["unicode.IsLower"] = e.uniPred("IsLower", unicode.IsLower)
	I["unicode.IsLetter"] = e.uniPred("IsLetter", unicode.IsLetter)

	I["fmt.Sprintf"] = func(e *Engine, fr *frame, a []Value) Value { return e.sprintf(a) }
	I["fmt.Errorf"] = func(e *Engine, fr *frame, a []Value) Value { return e.errorValue(e.sprintf(a)) }
	I["fmt.Printf"] = func(e *Engine, fr *frame, a []Value) Value {
		line := e.sprintf(a)
		e.outV = append(e.outV, line)
		if s, ok := line.(string); ok {
			e.out = append(e.out, s)
		} else {
			e.out = append(e.out, fmt.Sprint(line))
		}
		return Tuple{int64(0), Iface{}}
	}
	I["fmt.Print"] = func(e *Engine, fr *frame, a []Value) Value {
		va := a[0].(Slice)
		line := e.liftFormat(sliceElems(va), func(nat []interface{}) string { return fmt.Sprint(nat...) })
		e.outV = append(e.outV, line)
		if s, ok := line.(string); ok {
			e.out = append(e.out, s)
		} else {
			e.out = append(e.out, fmt.Sprint(line))
		}
		return Tuple{int64(0), Iface{}}
	}
	I["fmt.Sprint"] = func(e *Engine, fr *frame, a []Value) Value {
		va := a[0].(Slice)
		return e.liftFormat(sliceElems(va), func(nat []interface{}) string { return fmt.Sprint(nat...) })
	}
	I["fmt.Println"] = func(e *Engine, fr *frame, a []Value) Value {
		va := a[0].(Slice)
		line := e.liftFormat(sliceElems(va), func(nat []interface{}) string { return fmt.Sprintln(nat...) })
		e.outV = append(e.outV, line)
		if s, ok := line.(string); ok {
			e.out = append(e.out, s)
		} else {
			e.out = append(e.out, fmt.Sprint(line)+"\n")
		}
		return Tuple{int64(0), Iface{}}
	}

	// strings.Builder: struct{addr *Builder; buf []byte}. We keep the content in field 1 as
	// a Go string or *Rope.
	bcontent := func(b *Value) Value {
		st := (*b).(Struct)
		switch c := st[1].(type) {
		case string, *Rope:
			return c
		default:
			_ = c
			return ""
		}
	}
	I["(*strings.Builder).WriteRune"] = func(e *Engine, fr *frame, a []Value) Value {
		b := a[0].(*Value)
		cur := bcontent(b)
		var add Value
		switch r := a[1].(type) {
		case int64:
			add = string(rune(r))
		case *Term:
			add = &Rope{elems: []Value{r}}
		}
		st := (*b).(Struct)
		e.rawStore(&st[1], e.strConcat(cur, add))
		return Tuple{int64(1), Iface{}}
	}
	I["(*strings.Builder).WriteString"] = func(e *Engine, fr *frame, a []Value) Value {
		b := a[0].(*Value)
		st := (*b).(Struct)
		e.rawStore(&st[1], e.strConcat(bcontent(b), a[1]))
		return Tuple{int64(0), Iface{}}
	}
	I["(*strings.Builder).String"] = func(e *Engine, fr *frame, a []Value) Value {
		return bcontent(a[0].(*Value))
	}

	I["strings.Contains"] = func(e *Engine, fr *frame, a []Value) Value {
		_, c0 := a[0].(*ChoiceStr)
		_, c1 := a[1].(*ChoiceStr)
		if c0 || c1 {
			return e.liftBool2(a[0], a[1], strings.Contains)
		}
		if s, ok := a[0].(string); ok {
			return strings.Contains(s, a[1].(string))
		}
		hay, _ := strElems(a[0])
		nd, _ := strElems(a[1])
		if len(nd) == 0 {
			return true
		}
		acc := e.ts.Bool(false)
		for i := 0; i+len(nd) <= len(hay); i++ {
			c := e.ts.Bool(true)
			for j := range nd {
				c = e.ts.And(c, e.ts.Cmp("=", e.toTerm(hay[i+j], 32), e.toTerm(nd[j], 32)))
			}
			acc = e.ts.Or(acc, c)
		}
		return termOrBool(acc)
	}
	I["strings.TrimSpace"] = func(e *Engine, fr *frame, a []Value) Value {
		if c, ok := a[0].(*ChoiceStr); ok {
			return e.liftStr(c, func(x string) Value { return strings.TrimSpace(x) })
		}
		if s, ok := a[0].(string); ok {
			return strings.TrimSpace(s)
		}
		panic(pathEnd{kind: "unsupported", msg: "TrimSpace on rope"})
	}
	I["strings.Replace"] = func(e *Engine, fr *frame, a []Value) Value {
		if s, ok := a[0].(string); ok {
			return strings.Replace(s, a[1].(string), a[2].(string), int(a[3].(int64)))
		}
		panic(pathEnd{kind: "unsupported", msg: "Replace on rope"})
	}
	isDigitTerm := func(e *Engine, x Value) *Term {
		t := e.toTerm(x, 32)
		return e.ts.And(e.ts.Cmp("bvule", e.ts.BV('0', 32), t), e.ts.Cmp("bvule", t, e.ts.BV('9', 32)))
	}
	I["strconv.ParseInt"] = func(e *Engine, fr *frame, a []Value) Value {
		if s, ok := a[0].(string); ok {
			v, err := strconv.ParseInt(s, int(a[1].(int64)), int(a[2].(int64)))
			if err != nil {
				return Tuple{v, e.errorValue(err.Error())}
			}
			return Tuple{v, Iface{}}
		}
		r := a[0].(*Rope)
		if len(r.elems) > 18 {
			panic(pathEnd{kind: "unsupported", msg: "ParseInt on long rope"})
		}
		// ok iff [+-]?digit+  (base 10)
		allDigits := func(from int) *Term {
			acc := e.ts.Bool(from < len(r.elems))
			for i := from; i < len(r.elems); i++ {
				acc = e.ts.And(acc, isDigitTerm(e, r.elems[i]))
			}
			return acc
		}
		first := e.toTerm(r.elems[0], 32)
		sign := e.ts.Or(e.ts.Cmp("=", first, e.ts.BV('+', 32)), e.ts.Cmp("=", first, e.ts.BV('-', 32)))
		okT := e.ts.Or(allDigits(0), e.ts.And(sign, allDigits(1)))
		if e.decide(okT) {
			return Tuple{e.freshVar("parseint", 64), Iface{}}
		}
		return Tuple{int64(0), e.errorValue("strconv.ParseInt: parsing <symbolic>: invalid syntax")}
	}
	I["strconv.ParseFloat"] = func(e *Engine, fr *frame, a []Value) Value {
		if s, ok := a[0].(string); ok {
			v, err := strconv.ParseFloat(s, int(a[1].(int64)))
			if err != nil {
				return Tuple{v, e.errorValue(err.Error())}
			}
			return Tuple{v, Iface{}}
		}
		// result value is only stored by the lexer; error is ignored there.
		return Tuple{float64(0), Iface{}}
	}
}

func (e *Engine) verifapi(fr *frame, fn *ssa.Function, a []Value) Value {
	switch fn.Name() {
	case "init":
		return nil
	case "CorpusCount":
		return int64(len(corpusSelection()))
	case "CorpusSource":
		return corpusSelection()[e.concreteInt(a[0], "corpus index")].src
	case "CorpusName":
		return strings.TrimSuffix(strings.TrimPrefix(corpusSelection()[e.concreteInt(a[0], "corpus index")].name, "./"), ".rb")
	case "Source":
		return e.source
	case "FileName":
		return e.fileName
	case "Rune":
		v := e.freshVar(a[0].(string), 32)
		// valid scalar value
		c := e.ts.And(e.ts.Cmp("bvule", v, e.ts.BV(0x10FFFF, 32)),
			e.ts.Or(e.ts.Cmp("bvult", v, e.ts.BV(0xD800, 32)), e.ts.Cmp("bvult", e.ts.BV(0xDFFF, 32), v)))
		e.pushPC(c)
		return v
	case "Int":
		lo, hi := a[1].(int64), a[2].(int64)
		if lo >= 0 && hi < 256 {
			// small domain: 8-bit variable, zero-extended to the 64-bit Go int
			v := e.freshVar(a[0].(string), 8)
			e.pushPC(e.ts.And(e.ts.Cmp("bvule", e.ts.BV(uint64(lo), 8), v), e.ts.Cmp("bvule", v, e.ts.BV(uint64(hi), 8))))
			return e.ts.Resize(v, 64, false)
		}
		v := e.freshVar(a[0].(string), 64)
		e.pushPC(e.ts.And(e.ts.Cmp("bvsle", e.ts.BV(uint64(lo), 64), v), e.ts.Cmp("bvsle", v, e.ts.BV(uint64(hi), 64))))
		return v
	case "Bool":
		return e.freshVar(a[0].(string), 0)
	case "Assume":
		switch c := a[0].(type) {
		case bool:
			if !c {
				panic(pathEnd{kind: "infeasible", msg: "assume false"})
			}
		case *Term:
			r := e.check(c)
			if r == "unsat" {
				panic(pathEnd{kind: "infeasible", msg: "assume unsat"})
			}
			if r != "sat" {
				panic(pathEnd{kind: "inconclusive", msg: r})
			}
			e.pushPC(c)
		}
		return nil
	case "Assert":
		id := a[1].(string)
		e.asserts[id]++
		if e.twin {
			e.violation(id, "assert", "twin: assertion reached", nil)
			return nil
		}
		switch c := a[0].(type) {
		case bool:
			if !c {
				// recorded; the path goes on so that later assertions are evaluated too
				e.violation(id, "assert", "assertion false on this path", nil)
				e.violatedOnPath = true
			}
		case *Term:
			nc := e.ts.Not(c)
			r := e.check(nc)
			if r == "sat" {
				e.violation(id, "assert", "assertion can be false", nc)
				// continue on the side where it holds, if feasible
				if e.check(c) != "sat" {
					panic(pathEnd{kind: "violated", msg: id})
				}
			} else if r != "unsat" {
				panic(pathEnd{kind: "inconclusive", msg: r})
			}
			e.pushPC(c)
		}
		return nil
	case "Pick":
		// Pick(k int, alts ...string) string
		va := a[1].(Slice)
		alts := make([]string, va.len)
		for i := range alts {
			alts[i] = va.arr.elems[va.off+i].(string)
		}
		switch k := a[0].(type) {
		case int64:
			return alts[k]
		case *Term:
			return e.mkChoice(k, alts)
		}
	case "PickInt":
		va := a[1].(Slice)
		switch k := a[0].(type) {
		case int64:
			return va.arr.elems[va.off+int(k)]
		case *Term:
			t := e.ts.BV(uint64(va.arr.elems[va.off+va.len-1].(int64)), 64)
			for i := va.len - 2; i >= 0; i-- {
				t = e.ts.Ite(e.ts.Cmp("=", k, e.ts.BV(uint64(i), k.w)), e.ts.BV(uint64(va.arr.elems[va.off+i].(int64)), 64), t)
			}
			return t
		}
	case "AnyOrder":
		if m, ok := a[0].(Iface).v.(*Map); ok && m != nil {
			m.anyOrder = true
		}
		return nil
	case "FlipOrder":
		if m, ok := a[0].(Iface).v.(*Map); ok && m != nil {
			m.flip = true
		}
		return nil
	case "FlipAllMaps":
		e.flipAll = true
		return nil
	case "StubLexer":
		e.stubLexer = true
		return nil
	case "Snapshot":
		e.marks = append(e.marks, len(e.undo))
		vc := map[string]string{}
		for k, v := range e.vfs {
			vc[k] = v
		}
		e.vfsMarks = append(e.vfsMarks, vc)
		e.vfsOnlyMarks = append(e.vfsOnlyMarks, append([]string(nil), e.vfsOnlyPrefixes...))
		return int64(len(e.marks) - 1)
	case "Restore":
		i := a[0].(int64)
		m := e.marks[i]
		e.rollback(m)
		// the virtual file system is engine-side state: put it back too
		e.vfs = map[string]string{}
		for k, v := range e.vfsMarks[i] {
			e.vfs[k] = v
		}
		e.vfsOnlyPrefixes = append([]string(nil), e.vfsOnlyMarks[i]...)
		return nil
	case "TakeStdout":
		var acc Value = ""
		for _, l := range e.outV {
			acc = e.strConcat(acc, l)
		}
		e.outV = nil
		return acc
	case "CatchExit":
		exited := false
		func() {
			d := e.depth
			defer func() {
				if r := recover(); r != nil {
					if pe, ok := r.(pathEnd); ok && pe.kind == "exit" {
						exited = true
						e.depth = d
						return
					}
					panic(r)
				}
			}()
			e.call(fr, a[0], nil, nil)
		}()
		return exited
	case "Concrete":
		switch v := a[0].(type) {
		case int64:
			return v
		case *Term:
			return e.concretizeTerm(v)
		}
	case "Reach":
		e.reached[a[0].(string)]++
		return nil
	case "Classify":
		e.curClass = a[0]
		return nil
	case "Witness":
		n := a[0].(string)
		if _, ok := e.witnesses[n]; !ok {
			e.witnessOrder = append(e.witnessOrder, n)
		}
		e.witnesses[n] = a[1]
		return nil
	case "WitnessList":
		n := a[0].(string)
		if _, ok := e.witnesses[n]; !ok {
			e.witnessOrder = append(e.witnessOrder, n)
		}
		e.witnesses[n] = a[1]
		return nil
	case "WitnessInt":
		n := a[0].(string)
		if _, ok := e.witnesses[n]; !ok {
			e.witnessOrder = append(e.witnessOrder, n)
		}
		e.witnesses[n] = a[1]
		return nil
	case "Twin":
		return e.twin
	case "Thorough":
		return thoroughTier
	case "SetFile":
		if e.vfs == nil {
			e.vfs = map[string]string{}
		}
		e.vfs[filepath.Clean(a[0].(string))] = e.cs(a[1])
		return nil
	case "VfsOnly":
		e.vfsOnlyPrefixes = append(e.vfsOnlyPrefixes, filepath.Clean(a[0].(string)))
		return nil
	}
	panic(pathEnd{kind: "unsupported", msg: "verifapi." + fn.Name()})
}

func leafConsts(t *Term, out map[uint64]bool) bool {
	switch t.op {
	case "const":
		out[t.val] = true
		return true
	case "ite":
		return leafConsts(t.args[1], out) && leafConsts(t.args[2], out)
	}
	return false
}

// concretizeTerm forks over the values of an ite-chain of constants, in ascending order.
func (e *Engine) concretizeTerm(t *Term) Value {
	t = e.simplify(t)
	if t.IsConst() {
		return sext(t.val, t.w)
	}
	set := map[uint64]bool{}
	if !leafConsts(t, set) {
		// small-domain term (an 8-bit variable, possibly extended): try values in ascending
		// order; decide() prunes the infeasible ones, so the order is deterministic across
		// re-executions of the path prefix.
		inner := t
		for inner.op == "zext" || inner.op == "sext" {
			inner = inner.args[0]
		}
		if inner.w == 0 || inner.w > 8 {
			if os.Getenv("VERIF_DEBUG") != "" {
				for i := len(e.stack) - 1; i >= 0 && i > len(e.stack)-12; i-- {
					fmt.Println("  stack", i, e.stack[i].fn.String())
				}
			}
			panic(pathEnd{kind: "unsupported", msg: "concretize of wide non-table term"})
		}
		for v := uint64(0); v <= mask(inner.w); v++ {
			if e.decide(e.ts.Cmp("=", inner, e.ts.BV(v, inner.w))) {
				r := e.simplify(t)
				if r.IsConst() {
					return sext(r.val, r.w)
				}
				return int64(v)
			}
		}
		panic(pathEnd{kind: "infeasible", msg: "concretize: no value"})
	}
	var vals []uint64
	for v := range set {
		vals = append(vals, v)
	}
	sort.Slice(vals, func(i, j int) bool { return vals[i] < vals[j] })
	for i, v := range vals {
		if i == len(vals)-1 {
			return sext(v, t.w)
		}
		if e.decide(e.ts.Cmp("=", t, e.ts.BV(v, t.w))) {
			return sext(v, t.w)
		}
	}
	panic("unreachable")
}
