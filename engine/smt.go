package main

import (
	"bufio"
	"fmt"
	"io"
	"os/exec"
	"strings"
	"time"
)

type Solver struct {
	cmd      *exec.Cmd
	in       io.WriteCloser
	out      *bufio.Reader
	declared map[int]bool
	depth    int
	Queries  int
	Sat      int
	Unsat    int
	Unknown  int
	Time     time.Duration
	log      io.Writer
	isCVC5   bool
}

func NewSolver(bin string, args ...string) (*Solver, error) {
	cmd := exec.Command(bin, args...)
	in, err := cmd.StdinPipe()
	if err != nil {
		return nil, err
	}
	outp, err := cmd.StdoutPipe()
	if err != nil {
		return nil, err
	}
	cmd.Stderr = cmd.Stdout
	if err := cmd.Start(); err != nil {
		return nil, err
	}
	s := &Solver{cmd: cmd, in: in, out: bufio.NewReader(outp), declared: map[int]bool{}}
	s.isCVC5 = strings.Contains(bin, "cvc5")
	s.preamble()
	return s, nil
}

func (s *Solver) preamble() {
	s.send("(set-option :print-success false)")
	s.send("(set-option :produce-models true)")
	s.send("(set-option :global-declarations true)")
	if s.isCVC5 {
		s.send("(set-option :tlimit-per 5000)")
		s.send("(set-logic QF_BV)")
	} else {
		s.send("(set-option :timeout 5000)")
	}
}

func (s *Solver) send(line string) {
	if s.log != nil {
		fmt.Fprintln(s.log, line)
	}
	io.WriteString(s.in, line)
	io.WriteString(s.in, "\n")
}

func (s *Solver) declare(t *Term) {
	if t.op == "var" {
		if !s.declared[t.id] {
			s.declared[t.id] = true
			s.send(fmt.Sprintf("(declare-const %s %s)", t.name, t.sortStr()))
		}
		return
	}
	for _, a := range t.args {
		s.declare(a)
	}
}

// Declarations are global (made at depth 0 semantics): z3 scopes declarations under push,
// so we always declare before any push by tracking and re-declaring after reset.
func (s *Solver) Reset() {
	s.send("(reset)")
	s.preamble()
	s.declared = map[int]bool{}
	s.depth = 0
}

func (s *Solver) Push(t *Term) {
	s.ensureDecl(t)
	s.send("(push 1)")
	s.send("(assert " + t.SMT() + ")")
	s.depth++
}

func (s *Solver) PopTo(d int) {
	if s.depth > d {
		s.send(fmt.Sprintf("(pop %d)", s.depth-d))
		s.depth = d
	}
}

// ensureDecl declares variables of t at the outermost level. z3 allows declare inside push
// scopes but pops them; to keep it simple we pop-free declare by using a global
// declaration trick: (declare-const) before first push is not always possible, so we use
// z3's global-declarations option.
func (s *Solver) ensureDecl(t *Term) { s.declare(t) }

func (s *Solver) readLine() string {
	line, err := s.out.ReadString('\n')
	if err != nil {
		return "(error eof)"
	}
	return strings.TrimSpace(line)
}

// Check returns "sat","unsat" or "unknown" for current stack plus extra.
func (s *Solver) Check(extra *Term) string {
	start := time.Now()
	s.Queries++
	if extra != nil {
		s.ensureDecl(extra)
		s.send("(push 1)")
		s.send("(assert " + extra.SMT() + ")")
	}
	s.send("(check-sat)")
	res := s.readLine()
	if res == "unknown" && !s.isCVC5 {
		// most often the 5 s wall-clock cap hit while every core is busy: ask once more with
		// a generous cap before giving the path up as inconclusive
		s.send("(set-option :timeout 60000)")
		s.send("(check-sat)")
		res = s.readLine()
		s.send("(set-option :timeout 5000)")
	}
	if extra != nil {
		s.send("(pop 1)")
	}
	s.Time += time.Since(start)
	switch res {
	case "sat":
		s.Sat++
	case "unsat":
		s.Unsat++
	default:
		s.Unknown++
		if res != "unknown" {
			res = "unknown:" + res
		}
	}
	return res
}

// Model returns values of the given variables under current stack plus extra (must be sat).
func (s *Solver) Model(extra *Term, vars []*Term) (map[string]uint64, string) {
	if extra != nil {
		s.ensureDecl(extra)
		s.send("(push 1)")
		s.send("(assert " + extra.SMT() + ")")
	}
	for _, v := range vars {
		s.ensureDecl(v)
	}
	s.send("(check-sat)")
	res := s.readLine()
	m := map[string]uint64{}
	if res == "sat" {
		for _, v := range vars {
			s.send("(get-value (" + v.name + "))")
			line := s.readLine()
			// ((name #x0000) ) or ((name true))
			m[v.name] = parseValue(line)
		}
	}
	if extra != nil {
		s.send("(pop 1)")
	}
	return m, res
}

func parseValue(line string) uint64 {
	i := strings.LastIndex(line, " ")
	if i < 0 {
		return 0
	}
	v := strings.TrimRight(line[i+1:], ")")
	switch {
	case strings.HasPrefix(v, "#x"):
		var x uint64
		fmt.Sscanf(v[2:], "%x", &x)
		return x
	case strings.HasPrefix(v, "#b"):
		var x uint64
		for _, c := range v[2:] {
			x = x<<1 | uint64(c-'0')
		}
		return x
	case v == "true":
		return 1
	}
	return 0
}

func (s *Solver) Close() {
	s.send("(exit)")
	s.in.Close()
	s.cmd.Wait()
}
