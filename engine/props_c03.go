package main

func init() {
	register(&Property{
		ID: "C03",
		Jobs: func(tier string) []*Job {
			nl, np := 3, 3
			if tier == "thorough" {
				nl, np = 4, 4
			}
			var js []*Job
			for n := 1; n <= nl; n++ {
				js = append(js, &Job{Name: sprintf("lex-n%d", n), Pkg: "ti/lexer", Entry: "VerifLexAll", N: n, Budget: 6000 * (n + 2),
					Reach: []string{"eos"}, Asserts: []string{"consumed"}, Replay: "kernel", Cross: true,
					Bound: sprintf("every sequence of exactly %d runes (each an unconstrained Unicode scalar value, 21 bits) through reader.Read/Unread/AppendHistory and lexer.Advance until it returns false; unwinding bound %d SSA steps per path", n, 6000*(n+2))})
			}
			for n := 1; n <= np; n++ {
				js = append(js, &Job{Name: sprintf("read-n%d", n), Pkg: "ti/parser", Entry: "VerifReadAll", N: n, Budget: 8000 * (n + 2),
					Reach: []string{"eos"}, Asserts: []string{"no-read-error"}, Replay: "kernel", Cross: true,
					Bound: sprintf("every sequence of exactly %d ASCII runes (< 0x80) through reader, lexer and parser.Read until EOS", n)})
			}
			return js
		},
		Functions:   []string{"(*ti/lexer.Lexer).Advance", "(*ti/lexer/reader.LexerReader).Read", "(*ti/parser.Parser).Read"},
		Assumptions: []string{"[]rune(string(bytes)) (Go's UTF-8 decoding, U+FFFD for invalid bytes) happens before the lexer and is trusted; inputs are rune sequences", "job read-n*: runes < 0x80 so that byte and rune positions coincide in the buffers the parser indexes"},
		Stubs:       []string{"unicode.IsSpace/IsDigit/IsUpper/IsLower/IsLetter: exact interval tables computed at start-up from the real functions over all code points", "strconv.ParseInt/ParseFloat on symbolic digit strings: success predicate exact, numeric value a fresh variable (never inspected by the lexer)", "strings.Builder: content kept as a rune rope"},
		Outside:     "inputs longer than the stated rune counts (heredoc bodies, ti-doc comments need more runes); Lexer.LastComment contents",
	})
}
