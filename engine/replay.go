package main

import (
	"bytes"
	"context"
	"encoding/json"
	"fmt"
	"os"
	"os/exec"
	"path/filepath"
	"strings"
	"time"
)

// Native holds everything built natively from /repo's working tree for this run.
type Native struct {
	Dir      string            // scratch dir (removed on exit)
	TiBin    string            // native ti
	CfgDir   string            // directory holding .ti-config (a symlink to the shipped test config)
	testBins map[string]string // package import path -> compiled test binary
	ovPaths  map[string]string
	BuildLog string
	// SymJSON: when set, every native run gets the job's configuration plus zz_sym.json with
	// this content (the verification-only class Sym declared natively with the witnessed kinds).
	SymJSON string
	// ExtraCfg: extra configuration files (name -> content) a counterexample was found under
	// (witness "extra-config-files"); written as z_<name> so that they load after the shipped
	// files, as in the harness.
	ExtraCfg map[string]string
}

func goEnv() []string {
	return append(os.Environ(), "GOFLAGS=-mod=mod", "GOPROXY=off", "CGO_ENABLED=0")
}

func NewNative(ovPaths map[string]string) (*Native, error) {
	base := os.Getenv("TMPDIR")
	if base == "" {
		base = "/tmp"
	}
	dir, err := os.MkdirTemp(base, "vcheck-")
	if err != nil {
		return nil, err
	}
	n := &Native{Dir: dir, TiBin: filepath.Join(dir, "ti"), testBins: map[string]string{}, ovPaths: ovPaths}
	cmd := exec.Command("go", "build", "-o", n.TiBin, ".")
	cmd.Dir = repoDir
	cmd.Env = goEnv()
	out, err := cmd.CombinedOutput()
	if err != nil {
		return n, fmt.Errorf("native build of /repo failed: %v\n%s", err, out)
	}
	n.CfgDir = filepath.Join(dir, "w")
	os.MkdirAll(n.CfgDir, 0o755)
	if err := os.Symlink(filepath.Join(repoDir, "test", ".ti-config"), filepath.Join(n.CfgDir, ".ti-config")); err != nil {
		return n, err
	}
	return n, nil
}

func (n *Native) Close() {
	if n != nil && n.Dir != "" {
		os.RemoveAll(n.Dir)
	}
}

// RunTi runs the native ti in a fresh directory that holds the shipped test config and the
// given files; returns stdout+stderr, exit code, and whether the wall-clock cap was hit.
func (n *Native) RunTi(files map[string]string, args []string, cfg string) (string, int, bool) {
	wd, _ := os.MkdirTemp(n.Dir, "run-")
	defer os.RemoveAll(wd)
	if cfg == "" {
		cfg = filepath.Join(repoDir, "test", ".ti-config")
	}
	if n.SymJSON == "" && len(n.ExtraCfg) == 0 {
		os.Symlink(cfg, filepath.Join(wd, ".ti-config"))
	} else {
		dir := filepath.Join(wd, ".ti-config")
		os.MkdirAll(dir, 0o755)
		ents, _ := os.ReadDir(cfg)
		for _, e := range ents {
			if real, err := filepath.EvalSymlinks(filepath.Join(cfg, e.Name())); err == nil && e.Name() != "zz_sym.json" {
				os.Symlink(real, filepath.Join(dir, e.Name()))
			}
		}
		if n.SymJSON != "" {
			os.WriteFile(filepath.Join(dir, "zz_sym.json"), []byte(n.SymJSON), 0o644)
		}
		for name, c := range n.ExtraCfg {
			os.WriteFile(filepath.Join(dir, "z_"+name), []byte(c), 0o644)
		}
	}
	for name, content := range files {
		p := filepath.Join(wd, name)
		os.MkdirAll(filepath.Dir(p), 0o755)
		os.WriteFile(p, []byte(content), 0o644)
	}
	ctx, cancel := context.WithTimeout(context.Background(), 10*time.Second)
	defer cancel()
	cmd := exec.CommandContext(ctx, n.TiBin, args...)
	cmd.Dir = wd
	var buf bytes.Buffer
	cmd.Stdout = &buf
	cmd.Stderr = &buf
	err := cmd.Run()
	code := 0
	if err != nil {
		if ee, ok := err.(*exec.ExitError); ok {
			code = ee.ExitCode()
		} else {
			code = -1
		}
	}
	return buf.String(), code, ctx.Err() != nil
}

// testBinary compiles (once per run) the test binary of pkg with the harness overlay, the
// native verifapi twin and a generated replay test.
func (n *Native) testBinary(pkg string, entries []string) (string, error) {
	if b, ok := n.testBins[pkg]; ok {
		return b, nil
	}
	rel := strings.TrimPrefix(strings.TrimPrefix(pkg, "ti"), "/")
	pkgDir := filepath.Join(repoDir, rel)
	pkgName := filepath.Base(pkgDir)
	if rel == "" || strings.HasPrefix(rel, "cmd/") {
		pkgName = "main"
	}
	var sb strings.Builder
	fmt.Fprintf(&sb, "package %s\n\nimport (\n\t\"fmt\"\n\t\"os\"\n\t\"strconv\"\n\t\"testing\"\n\t\"ti/verifapi\"\n)\n\n", pkgName)
	sb.WriteString("func TestVerifReplay(t *testing.T) {\n\tverifapi.Load()\n\tn, _ := strconv.Atoi(os.Getenv(\"VERIF_N\"))\n")
	sb.WriteString("\tdefer func() {\n\t\tif r := recover(); r != nil {\n\t\t\tfmt.Println(\"VERIF-PANIC\", r)\n\t\t\tpanic(r)\n\t\t}\n\t}()\n")
	sb.WriteString("\tswitch os.Getenv(\"VERIF_ENTRY\") {\n")
	for _, en := range entries {
		fmt.Fprintf(&sb, "\tcase %q:\n\t\t%s(n)\n", en, en)
	}
	sb.WriteString("\tdefault:\n\t\tt.Fatal(\"unknown entry\")\n\t}\n\tfmt.Println(\"VERIF-DONE\")\n}\n")
	testFile := filepath.Join(n.Dir, "replay_"+strings.ReplaceAll(rel, "/", "_")+"_test.go")
	os.WriteFile(testFile, []byte(sb.String()), 0o644)

	repl := map[string]string{}
	for v, r := range n.ovPaths {
		repl[v] = r
	}
	repl[filepath.Join(repoDir, "verifapi", "verifapi.go")] = "/verif/harness/native/verifapi.go"
	repl[filepath.Join(pkgDir, "zz_verif_replay_test.go")] = testFile
	ovJSON, _ := json.Marshal(map[string]any{"Replace": repl})
	ovFile := filepath.Join(n.Dir, "overlay_"+strings.ReplaceAll(rel, "/", "_")+".json")
	os.WriteFile(ovFile, ovJSON, 0o644)
	bin := filepath.Join(n.Dir, "test_"+strings.ReplaceAll(rel, "/", "_")+".bin")
	cmd := exec.Command("go", "test", "-c", "-vet=off", "-overlay", ovFile, "-o", bin, "./"+rel)
	cmd.Dir = repoDir
	cmd.Env = goEnv()
	out, err := cmd.CombinedOutput()
	if err != nil {
		return "", fmt.Errorf("native harness build failed for %s: %v\n%s", pkg, err, out)
	}
	n.testBins[pkg] = bin
	return bin, nil
}

type ReplayResult struct {
	Reproduced bool
	Observed   string
	Cmd        string
}

// ReplayKernel runs the natively compiled harness entry under the recorded model.
func (n *Native) ReplayKernel(job *Job, entries []string, v *Violation) (ReplayResult, error) {
	bin, err := n.testBinary(job.Pkg, entries)
	if err != nil {
		return ReplayResult{}, err
	}
	mf, _ := os.CreateTemp(n.Dir, "model-*.json")
	b, _ := json.Marshal(v.Model)
	mf.Write(b)
	mf.Close()
	defer os.Remove(mf.Name())
	// A counterexample that depends on a schedule variable (Go map iteration order, "ord_*")
	// cannot be forced natively: the run is repeated - each process gets fresh map
	// randomisation - until the assertion fails once.
	tries := 1
	for k := range v.Model {
		if strings.HasPrefix(k, "ord_") {
			tries = 80
		}
	}
	var res ReplayResult
	for i := 0; i < tries && !res.Reproduced; i++ {
		ctx, cancel := context.WithTimeout(context.Background(), 20*time.Second)
		cmd := exec.CommandContext(ctx, bin, "-test.run", "^TestVerifReplay$", "-test.timeout", "3s", "-test.v")
		cmd.Dir = configRoot(job.Config)
		cmd.Env = append(os.Environ(), "VERIF_MODEL="+mf.Name(), "VERIF_ENTRY="+job.Entry, fmt.Sprintf("VERIF_N=%d", job.N),
			"VERIF_SOURCE="+job.Source, "VERIF_FILE="+job.File)
		out, _ := cmd.CombinedOutput()
		s := string(out)
		res = ReplayResult{Observed: tail(s, 1500), Cmd: fmt.Sprintf("VERIF_MODEL=<model.json> VERIF_ENTRY=%s VERIF_N=%d %s -test.run TestVerifReplay (x%d: schedule-dependent)", job.Entry, job.N, filepath.Base(bin), tries)}
		switch {
		case strings.HasPrefix(v.Kind, "panic"):
			res.Reproduced = strings.Contains(s, "VERIF-PANIC") || strings.Contains(s, "panic:") && !strings.Contains(s, "test timed out") || strings.Contains(s, "fatal error:")
		case v.Kind == "budget":
			res.Reproduced = strings.Contains(s, "test timed out") || ctx.Err() != nil
		default:
			res.Reproduced = strings.Contains(s, "VERIF-ASSERT-FAILED "+v.ID)
		}
		cancel()
	}
	return res, nil
}

func tail(s string, n int) string {
	if len(s) > n {
		return "..." + s[len(s)-n:]
	}
	return s
}

// ReplayProgram runs the native ti on the witness program and checks for the symptom the
// violation claims (crash / hang). Output-relation violations are replayed by the
// property-specific functions in props_*.go.
func (n *Native) ReplayProgram(v *Violation, cfgName string) ReplayResult {
	cfg := ""
	if cfgName != "" {
		cfg = filepath.Join(configRoot(cfgName), ".ti-config")
	}
	src, ok := v.Witness["src"]
	if !ok {
		return ReplayResult{Observed: "no src witness"}
	}
	args := []string{"./a.rb"}
	if fl := v.Witness["flags"]; fl != "" {
		args = append(args, strings.Fields(fl)...)
	}
	res := ReplayResult{Cmd: "ti " + strings.Join(args, " ")}
	switch {
	case strings.HasPrefix(v.Kind, "panic"):
		out, code, _ := n.RunTi(map[string]string{"a.rb": src}, args, cfg)
		res.Observed = tail(out, 1200)
		res.Reproduced = code != 0 && (strings.Contains(out, "panic:") || strings.Contains(out, "fatal error:")) ||
			code == 1 && isTimeoutOut(out) && strings.Contains(v.Kind, "stack-overflow")
	case v.Kind == "assert" && v.ID == "C01-output-lines":
		out, code, _ := n.RunTi(map[string]string{"a.rb": src}, args, cfg)
		res.Observed = tail(out, 600)
		bad := false
		if code == 0 && !isTimeoutOut(out) {
			for _, line := range strings.Split(strings.TrimSuffix(out, "\n"), "\n") {
				if out != "" && !strings.HasPrefix(line, "./a.rb:::") && !strings.HasPrefix(line, "@./a.rb:::") {
					bad = true
				}
			}
		}
		res.Reproduced = bad
	case v.Kind == "budget":
		// a hang must print `timeout` and keep doing so when rerun (idle core)
		hung := 0
		for i := 0; i < 3; i++ {
			out, _, capHit := n.RunTi(map[string]string{"a.rb": src}, args, cfg)
			res.Observed = tail(out, 400)
			if isTimeoutOut(out) || capHit {
				hung++
			}
		}
		res.Reproduced = hung == 3
	}
	return res
}

// isTimeoutOut: the watchdog's `timeout` is the last line printed (dbtp lines printed before
// it fired may precede it).
func isTimeoutOut(s string) bool {
	s = strings.TrimSpace(s)
	return s == "timeout" || strings.HasSuffix(s, "\ntimeout")
}
