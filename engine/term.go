package main

import (
	"fmt"
	"strings"
)

// Term is a hash-consed SMT term. Sort: w==0 => Bool, w>0 => (_ BitVec w).
type Term struct {
	op   string // "var","const","true","false", smt op names, "ite", "extract","zext","sext"
	args []*Term
	w    int    // result width, 0 = Bool
	name string // for var
	val  uint64 // for const (masked to w)
	a, b int    // extract hi/lo ; ext amount in a
	id   int
	str  string // cached SMT text
}

type TermStore struct {
	tab  map[string]*Term
	next int
	vars []*Term
}

func NewTermStore() *TermStore { return &TermStore{tab: map[string]*Term{}} }

func (ts *TermStore) intern(t *Term) *Term {
	var sb strings.Builder
	sb.WriteString(t.op)
	fmt.Fprintf(&sb, "/%d/%s/%d/%d/%d", t.w, t.name, t.val, t.a, t.b)
	for _, a := range t.args {
		fmt.Fprintf(&sb, ",%d", a.id)
	}
	k := sb.String()
	if e, ok := ts.tab[k]; ok {
		return e
	}
	ts.next++
	t.id = ts.next
	ts.tab[k] = t
	if t.op == "var" {
		ts.vars = append(ts.vars, t)
	}
	return t
}

func mask(w int) uint64 {
	if w >= 64 {
		return ^uint64(0)
	}
	return (uint64(1) << uint(w)) - 1
}

func (ts *TermStore) Var(name string, w int) *Term {
	return ts.intern(&Term{op: "var", name: name, w: w})
}
func (ts *TermStore) BV(v uint64, w int) *Term {
	return ts.intern(&Term{op: "const", val: v & mask(w), w: w})
}
func (ts *TermStore) Bool(b bool) *Term {
	if b {
		return ts.intern(&Term{op: "true"})
	}
	return ts.intern(&Term{op: "false"})
}
func (t *Term) IsConst() bool { return t.op == "const" || t.op == "true" || t.op == "false" }
func (t *Term) BoolVal() bool { return t.op == "true" }

func sext(v uint64, w int) int64 {
	if w >= 64 {
		return int64(v)
	}
	sh := uint(64 - w)
	return int64(v<<sh) >> sh
}

// Not
func (ts *TermStore) Not(a *Term) *Term {
	switch a.op {
	case "true":
		return ts.Bool(false)
	case "false":
		return ts.Bool(true)
	case "not":
		return a.args[0]
	}
	return ts.intern(&Term{op: "not", args: []*Term{a}})
}
func (ts *TermStore) And(a, b *Term) *Term {
	if a.op == "false" || b.op == "false" {
		return ts.Bool(false)
	}
	if a.op == "true" {
		return b
	}
	if b.op == "true" {
		return a
	}
	if a == b {
		return a
	}
	return ts.intern(&Term{op: "and", args: []*Term{a, b}})
}
func (ts *TermStore) Or(a, b *Term) *Term {
	if a.op == "true" || b.op == "true" {
		return ts.Bool(true)
	}
	if a.op == "false" {
		return b
	}
	if b.op == "false" {
		return a
	}
	if a == b {
		return a
	}
	return ts.intern(&Term{op: "or", args: []*Term{a, b}})
}
func (ts *TermStore) Ite(c, a, b *Term) *Term {
	if c.op == "true" {
		return a
	}
	if c.op == "false" {
		return b
	}
	if a == b {
		return a
	}
	return ts.intern(&Term{op: "ite", args: []*Term{c, a, b}, w: a.w})
}

// Cmp builds a comparison; op in =, bvult, bvule, bvslt, bvsle.
func (ts *TermStore) Cmp(op string, a, b *Term) *Term {
	if a.IsConst() && b.IsConst() {
		if a.w == 0 {
			return ts.Bool(a.op == b.op)
		}
		var r bool
		switch op {
		case "=":
			r = a.val == b.val
		case "bvult":
			r = a.val < b.val
		case "bvule":
			r = a.val <= b.val
		case "bvslt":
			r = sext(a.val, a.w) < sext(b.val, b.w)
		case "bvsle":
			r = sext(a.val, a.w) <= sext(b.val, b.w)
		}
		return ts.Bool(r)
	}
	if a == b {
		switch op {
		case "=", "bvule", "bvsle":
			return ts.Bool(true)
		default:
			return ts.Bool(false)
		}
	}
	// narrow comparisons of a zero-extended small term with a constant
	if a.op == "zext" && b.op == "const" {
		x := a.args[0]
		if b.val <= mask(x.w) {
			nop := op
			if op == "bvslt" {
				nop = "bvult"
			} else if op == "bvsle" {
				nop = "bvule"
			}
			return ts.Cmp(nop, x, ts.BV(b.val, x.w))
		}
		neg := a.w == 64 && int64(b.val) < 0 && (op == "bvslt" || op == "bvsle")
		switch {
		case op == "=":
			return ts.Bool(false)
		case neg:
			return ts.Bool(false) // x >= 0 > const
		default:
			return ts.Bool(true) // x <= mask < const
		}
	}
	if b.op == "zext" && a.op == "const" {
		x := b.args[0]
		if a.val <= mask(x.w) {
			nop := op
			if op == "bvslt" {
				nop = "bvult"
			} else if op == "bvsle" {
				nop = "bvule"
			}
			return ts.Cmp(nop, ts.BV(a.val, x.w), x)
		}
		neg := b.w == 64 && int64(a.val) < 0 && (op == "bvslt" || op == "bvsle")
		switch {
		case op == "=":
			return ts.Bool(false)
		case neg:
			return ts.Bool(true) // const < 0 <= x
		default:
			return ts.Bool(false) // const > mask >= x
		}
	}
	if op == "=" && a.id > b.id {
		a, b = b, a
	}
	return ts.intern(&Term{op: op, args: []*Term{a, b}})
}

// Bin builds a bit-vector binary op (bvadd bvsub bvmul bvand bvor bvxor bvshl bvlshr bvashr bvudiv bvurem bvsdiv bvsrem).
func (ts *TermStore) Bin(op string, a, b *Term) *Term {
	w := a.w
	if a.IsConst() && b.IsConst() {
		x, y := a.val, b.val
		var r uint64
		ok := true
		switch op {
		case "bvadd":
			r = x + y
		case "bvsub":
			r = x - y
		case "bvmul":
			r = x * y
		case "bvand":
			r = x & y
		case "bvor":
			r = x | y
		case "bvxor":
			r = x ^ y
		case "bvshl":
			if y >= uint64(w) {
				r = 0
			} else {
				r = x << y
			}
		case "bvlshr":
			if y >= uint64(w) {
				r = 0
			} else {
				r = x >> y
			}
		default:
			ok = false
		}
		if ok {
			return ts.BV(r, w)
		}
	}
	// a table (ite-tree of constants) combined with a constant stays a table: push the
	// operation into the leaves (lengths/offsets of choice strings: len(s)-1)
	if (op == "bvadd" || op == "bvsub") && b.IsConst() && isConstTable(a, 16) {
		return ts.mapTable(a, func(l *Term) *Term { return ts.Bin(op, l, b) })
	}
	if op == "bvadd" && a.IsConst() && isConstTable(b, 16) {
		return ts.mapTable(b, func(l *Term) *Term { return ts.Bin(op, a, l) })
	}
	return ts.intern(&Term{op: op, args: []*Term{a, b}, w: w})
}

// isConstTable: an ite-tree whose leaves are constants, with at most max leaves.
func isConstTable(t *Term, max int) bool {
	n := 0
	var walk func(t *Term) bool
	walk = func(t *Term) bool {
		switch t.op {
		case "const":
			n++
			return n <= max
		case "ite":
			return walk(t.args[1]) && walk(t.args[2])
		}
		return false
	}
	return t.op == "ite" && walk(t)
}

func (ts *TermStore) mapTable(t *Term, f func(*Term) *Term) *Term {
	if t.op == "ite" {
		return ts.Ite(t.args[0], ts.mapTable(t.args[1], f), ts.mapTable(t.args[2], f))
	}
	return f(t)
}
func (ts *TermStore) Neg(a *Term) *Term {
	if a.IsConst() {
		return ts.BV(-a.val, a.w)
	}
	return ts.intern(&Term{op: "bvneg", args: []*Term{a}, w: a.w})
}
func (ts *TermStore) BVNot(a *Term) *Term {
	if a.IsConst() {
		return ts.BV(^a.val, a.w)
	}
	return ts.intern(&Term{op: "bvnot", args: []*Term{a}, w: a.w})
}

// Resize converts a to width w (sign- or zero-extending, or truncating).
func (ts *TermStore) Resize(a *Term, w int, signed bool) *Term {
	if a.w == w {
		return a
	}
	if a.IsConst() {
		if w < a.w {
			return ts.BV(a.val, w)
		}
		if signed {
			return ts.BV(uint64(sext(a.val, a.w)), w)
		}
		return ts.BV(a.val, w)
	}
	if w < a.w {
		return ts.intern(&Term{op: "extract", args: []*Term{a}, w: w, a: w - 1, b: 0})
	}
	op := "zext"
	if signed {
		op = "sext"
	}
	return ts.intern(&Term{op: op, args: []*Term{a}, w: w, a: w - a.w})
}

func (t *Term) sortStr() string {
	if t.w == 0 {
		return "Bool"
	}
	return fmt.Sprintf("(_ BitVec %d)", t.w)
}

// SMT returns SMT-LIB2 text (cached).
func (t *Term) SMT() string {
	if t.str != "" {
		return t.str
	}
	var s string
	switch t.op {
	case "var":
		s = t.name
	case "true", "false":
		s = t.op
	case "const":
		s = fmt.Sprintf("(_ bv%d %d)", t.val, t.w)
	case "extract":
		s = fmt.Sprintf("((_ extract %d %d) %s)", t.a, t.b, t.args[0].SMT())
	case "zext":
		s = fmt.Sprintf("((_ zero_extend %d) %s)", t.a, t.args[0].SMT())
	case "sext":
		s = fmt.Sprintf("((_ sign_extend %d) %s)", t.a, t.args[0].SMT())
	default:
		var sb strings.Builder
		sb.WriteByte('(')
		sb.WriteString(t.op)
		for _, a := range t.args {
			sb.WriteByte(' ')
			sb.WriteString(a.SMT())
		}
		sb.WriteByte(')')
		s = sb.String()
	}
	t.str = s
	return s
}
