package main

import "strings"

func f4Job(name, entry string, n int, reach []string, asserts []string, bound string) *Job {
	return &Job{Name: name, Pkg: "ti", Entry: entry, N: n, Budget: 3000000, MaxDepth: 300, Reach: reach, Asserts: asserts, Replay: "custom", Config: "core", StubNoRepro: true,
		Bound: bound + "; leaf kinds range over NilClass/Integer/String/Bool (thorough tier: + Float, Symbol); configuration: core subset of the shipped test configuration plus the verification-only class Sym"}
}

func withBudget(b int, j *Job) *Job {
	j.Budget = b
	return j
}

var f4Stubs = []string{"verification-only builtin class Sym (installed through the real defineBuiltinStaticMethod): Sym.a/b/c return a value of solver-chosen kind (NilClass, Integer, String, Bool, Float, Symbol), Sym.u / Sym.w unions of 2 / 3 distinct solver-chosen kinds", "os.Exit / fmt.Println captured"}

func init() {
	register(&Property{ID: "C10",
		Jobs: func(tier string) []*Job {
			return []*Job{f4Job("narrow", "VerifNarrow", 2, []string{"ran"}, []string{"C10-then", "C10-else", "C10-after"},
				"x = Sym.u (all 12 ordered pairs of distinct kinds out of NilClass/Integer/String/Bool, solver variables) tested by if/unless x [!] x.nil? / is_a?(Integer) / is_a?(String) with then/else/after probes; optionally an unrelated inner conditional or builtin call in the then-branch"),
				f4Job("chain", "VerifNarrowChain", map[string]int{"quick": 1, "thorough": 2}[tier], []string{"ran"}, []string{"C10-chain-after-x", "C10-chain-later-conditional"},
					"`if T1 && T2` for all pairs of the test forms nil?/!nil?/is_a?(Integer)/!is_a?(Integer) (thorough: + is_a?(String) forms), both on x = Sym.w (every ordered triple of distinct kinds out of NilClass/Integer/String; thorough + Bool) or on x = Sym.w and y = Sym.u; probes in the branch, after `end`, and in a later conditional on x"),
				f4Job("shapes", "VerifNarrowShapes", map[string]int{"quick": 1, "thorough": 2}[tier], []string{"ran"}, []string{"C10-s-then", "C10-s-after"},
					"x = Sym.w (every ordering of NilClass/Integer/String) under 7 conditional shapes: if/elsif/else, a conditional nested in a branch, a method parameter, unless/else, a conditional inside a block, two conditionals in sequence, elsif testing a second variable; tests range over nil?/!nil?/is_a?(Integer)/!is_a?(Integer) (thorough: + is_a?(String) forms); every probe's expected type is computed from the guards above it"),
				f4Job("objects", "VerifNarrowObjects", 0, []string{"ran"}, []string{"C10-o-then", "C10-o-after"},
					"x = Sym.o, a union of NilClass and instances of two user classes Va / Vb in every order, under if T1 / elsif T2 / else for all 36 pairs of nil?, is_a?(Va), is_a?(Vb) and their negations; plus one concrete union with a container variant (Array<Integer> | String | Float) narrowed by is_a?(Array)")}
		},
		Custom:    replayKindsProgram,
		Filter:    func(v *Violation) bool { return strings.HasPrefix(v.ID, "C10") },
		Stubs:     f4Stubs,
		Functions: []string{"(*ti/eval.IfUnless).Evaluation", "(*ti/eval.IfUnless).getBackupContext", "(*ti/eval.IfUnless).setConditionalCtx", "(*ti/eval.IfUnless).narrowing"},
		Outside:   "nesting deeper than 2, more than 2 narrowed variables, elsif chains beyond the listed skeletons",
	})
}
