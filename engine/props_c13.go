package main

import "strings"

func init() {
	register(&Property{ID: "C13",
		Jobs: func(tier string) []*Job {
			return []*Job{f4Job("rename", "VerifRename", 0, []string{"ran"}, []string{"C13-rename"},
				"7 skeletons (local variable, method, class, instance variable, setter method, heredoc terminator, predicate-suffixed method) x 5-9 fresh names of the same lexical category each (incl. one-character, digit/underscore-bearing, camelCase and acronym-style names); leaf kind a solver variable; reference-name program vs renamed program in one path")}
		},
		Custom:    replayRename,
		Filter:    func(v *Violation) bool { return strings.HasPrefix(v.ID, "C13") },
		Stubs:     f4Stubs,
		Functions: []string{"(*ti/base.T).IsClassIdentifier", "(*ti/base.T).IsConstIdentifier", "(*ti/base.T).IsVariableIdentifier", "ti/eval/method_evaluator.NewStrategy", "ti/eval.evalHereDocument", "ti/base.SetMethodT"},
		Outside:   "names outside the 5-name domains; names colliding with configured classes (that is C20)",
	})
}
