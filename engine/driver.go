package main

import (
	"fmt"
	"os"
	"path/filepath"
	"sort"
	"strings"
	"sync"
	"time"

	"golang.org/x/tools/go/packages"
	"golang.org/x/tools/go/ssa"
	"golang.org/x/tools/go/ssa/ssautil"
)

// repoDir is the tree under check. Registered commands always use /repo; VERIF_REPO exists only so
// that a seeded change can be tried in a scratch worktree while other checks read /repo.
var repoDir = func() string {
	if d := os.Getenv("VERIF_REPO"); d != "" {
		return d
	}
	return "/repo"
}()

// Job is one symbolic-execution run: an entry function (a harness living in an overlay file
// inside the package under test) explored over all feasible paths.
type Job struct {
	Name     string
	Pkg      string // import path of the package that holds the entry
	Entry    string
	N        int // integer argument of the entry (the bound)
	Budget   int // SSA steps per path (unwinding bound)
	MaxDepth int
	Reach    []string // reach markers that must be hit on a feasible path (vacuity guard)
	Asserts  []string // assertion ids that must be evaluated at least once
	Replay   string   // "kernel", "program", "none"
	Bound    string   // human description of the bound
	Source   string   // concrete program text for Source()/FileName() harnesses
	File     string
	// StubNoRepro: counterexamples that do not reproduce natively are counted as
	// unrealizable under the lexer stub instead of being an engine discrepancy.
	StubNoRepro bool
	NoPanicClass bool // panics are findings of C01 only; other properties ignore them
	IgnoreKinds  []string
	MaxPaths     int
	// Stubs: functions of /repo replaced for this job. "str:X" returns the string X,
	// "err:X" returns errors.New(X). Every stub is listed in the evidence.
	Stubs map[string]string
	// Config: "" = the shipped test configuration (/repo/test/.ti-config); "core" = the
	// subset of its files listed in coreConfigFiles (stated as part of the bound).
	Config string
	// Cross: in the thorough tier the job is run again on z3 5.1 (z3-new) and cvc5 and the
	// path counts and counterexample classes are compared.
	Cross bool
	// Golden: auxiliary concrete job over the repository's example programs (golden.go).
	Golden *GoldenSpec
}

type JobResult struct {
	Job          *Job
	Paths        int
	Steps        int64
	Folded       int
	EndKinds     map[string]int
	EndMsgs      map[string]int
	Reached      map[string]int
	Asserts      map[string]int
	Fns          map[string]bool
	Violations   []Violation
	Queries      int
	Sat          int
	Unsat        int
	Unknown      int
	SolverTime   time.Duration
	Wall         time.Duration
	Decisions    int64
	TwinViolated int
	Truncated    bool
	MaxSteps     int
	NonTrivial   int              // paths on which at least one assertion or reach marker was evaluated
	Samples      []map[string]any // a few completed paths written out (model + witnesses)
}

var overlayDir = "/verif/harness/overlay"

// buildOverlay maps every file under harness/overlay to the same relative path in /repo.
func buildOverlay() (map[string][]byte, map[string]string) {
	ov := map[string][]byte{}
	paths := map[string]string{}
	filepath.Walk(overlayDir, func(p string, info os.FileInfo, err error) error {
		if err != nil || info.IsDir() || !strings.HasSuffix(p, ".go") {
			return nil
		}
		rel, _ := filepath.Rel(overlayDir, p)
		b, err := os.ReadFile(p)
		if err != nil {
			panic(err)
		}
		ov[filepath.Join(repoDir, rel)] = b
		paths[filepath.Join(repoDir, rel)] = p
		return nil
	})
	return ov, paths
}

func loadProgram(overlay map[string][]byte, patterns ...string) (*ssa.Program, error) {
	cfg := &packages.Config{Mode: packages.LoadAllSyntax, Dir: repoDir, Overlay: overlay,
		Env: append(os.Environ(), "GOFLAGS=-mod=mod", "GOPROXY=off")}
	pkgs, err := packages.Load(cfg, patterns...)
	if err != nil {
		return nil, err
	}
	var errs []string
	packages.Visit(pkgs, nil, func(p *packages.Package) {
		for _, e := range p.Errors {
			errs = append(errs, e.Error())
		}
	})
	if len(errs) > 0 {
		return nil, fmt.Errorf("load errors:\n%s", strings.Join(errs, "\n"))
	}
	prog, _ := ssautil.AllPackages(pkgs, ssa.InstantiateGenerics)
	prog.Build()
	return prog, nil
}

type worker struct {
	e      *Engine
	solver *Solver
	mark   int
}

func newWorker(prog *ssa.Program, pkgPath string, solverBin []string, fsRoot string) (*worker, error) {
	solver, err := NewSolver(solverBin[0], solverBin[1:]...)
	if err != nil {
		return nil, err
	}
	e := NewEngine(prog, solver)
	e.fsRoot = fsRoot
	e.resetFacts()
	e.asserts = map[string]int{}
	e.witnesses = map[string]Value{}
	e.budget = 200000000
	pkg := prog.ImportedPackage(pkgPath)
	if pkg == nil {
		return nil, fmt.Errorf("package %s not loaded", pkgPath)
	}
	var initErr error
	func() {
		defer func() {
			if r := recover(); r != nil {
				initErr = fmt.Errorf("init of %s failed in the interpreter: %v", pkgPath, r)
			}
		}()
		e.callFunction(nil, pkg.Func("init"), nil, nil)
	}()
	if initErr != nil {
		return nil, initErr
	}
	return &worker{e: e, solver: solver, mark: len(e.undo)}, nil
}

func (w *worker) resetPath(job *Job, pre []int8) {
	e := w.e
	e.rollback(w.mark)
	e.pc = e.pc[:0]
	e.decisions = pre
	e.decIdx = 0
	e.steps = 0
	e.depth = 0
	e.varCount = map[string]int{}
	e.pathVars = nil
	e.out = nil
	e.pending = nil
	e.stubLexer = false
	e.outV = nil
	e.marks = nil
	e.vfsMarks = nil
	e.vfsOnlyMarks = nil
	e.stack = e.stack[:0]
	e.envArena = e.envArena[:0]
	e.visArena = e.visArena[:0]
	e.curClass = nil
	e.witnesses = map[string]Value{}
	e.witnessOrder = nil
	e.vfs = nil
	e.vfsOnlyPrefixes = nil
	e.resetFacts()
	e.budget = job.Budget
	if job.MaxDepth > 0 {
		e.maxDepth = job.MaxDepth
	}
	e.fnStubs = job.Stubs
	e.source, e.fileName = job.Source, job.File
	e.jobName = job.Name
}

func shortFn(s string) string {
	s = strings.ReplaceAll(s, "ti/eval/method_evaluator.", "me.")
	s = strings.ReplaceAll(s, "ti/", "")
	return s
}

// runOnePath executes the entry once along the decision prefix; returns the path end kind.
func (w *worker) runOnePath(job *Job, fn *ssa.Function, res *JobResult) {
	e := w.e
	defer func() {
		if r := recover(); r != nil {
			switch r := r.(type) {
			case pathEnd:
				res.EndKinds[r.kind]++
				switch r.kind {
				case "infeasible", "violated", "exit":
				case "budget":
					e.violationC("termination", "budget", "nonterminating/"+shortFn(e.hotFn), r.msg, nil)
				default:
					res.EndMsgs[r.kind+": "+r.msg]++
				}
			case goPanic:
				res.EndKinds["panic"]++
				cls := "panic/" + r.kind + "/" + shortFn(e.panicFn) + "/" + e.panicExpr
				if r.site == "" {
					cls = "panic/" + r.kind + "/" + r.msg
				}
				e.violationC("nopanic", "panic/"+r.kind, cls, r.msg+" @ "+r.site, nil)
			default:
				res.EndKinds["engine-error"]++
				res.EndMsgs[fmt.Sprintf("engine-error: %v", r)]++
			}
		}
	}()
	e.violatedOnPath = false
	a0, r0 := sumCounts(e.asserts), sumCounts(e.reached)
	defer func() {
		if sumCounts(e.asserts) > a0 || sumCounts(e.reached) > r0 {
			res.NonTrivial++
		}
	}()
	e.callFunction(nil, fn, []Value{int64(job.N)}, nil)
	if len(res.Samples) < 2 && len(e.pathVars) > 0 {
		e.sync()
		if m, st := e.solver.Model(nil, e.pathVars); st == "sat" {
			w := map[string]string{}
			for _, n := range e.witnessOrder {
				w[n] = tail(e.evalString(e.witnesses[n], m), 300)
			}
			res.Samples = append(res.Samples, map[string]any{"job": job.Name, "model_of_this_path": m, "witnesses": w, "decisions": len(e.decisions), "ssa_steps": e.steps})
		}
	}
	if e.violatedOnPath {
		res.EndKinds["violated"]++
	} else {
		res.EndKinds["completed"]++
	}
	if e.steps > e.MaxStepsCompleted {
		e.MaxStepsCompleted = e.steps
	}
}

// RunJob explores all feasible paths of the job's entry with nw workers.
func RunJob(prog *ssa.Program, job *Job, nw int, twin bool, solverBin []string) (*JobResult, error) {
	if job.Golden != nil {
		return RunGolden(prog, job, nw, solverBin)
	}
	t0 := time.Now()
	pkg := prog.ImportedPackage(job.Pkg)
	if pkg == nil {
		return nil, fmt.Errorf("package %s not loaded", job.Pkg)
	}
	fn := pkg.Func(job.Entry)
	if fn == nil {
		return nil, fmt.Errorf("entry %s.%s not found", job.Pkg, job.Entry)
	}
	var mu sync.Mutex
	cond := sync.NewCond(&mu)
	pending := [][]int8{{}}
	active, total := 0, 0
	maxPaths := job.MaxPaths
	if maxPaths == 0 {
		maxPaths = 50000000
	}
	if twin && maxPaths > 400 {
		maxPaths = 400
	}
	results := make([]*JobResult, nw)
	workers := make([]*worker, nw)
	var wg sync.WaitGroup
	var firstErr error
	for i := 0; i < nw; i++ {
		wg.Add(1)
		go func(i int) {
			defer wg.Done()
			w, err := newWorker(prog, job.Pkg, solverBin, configRoot(job.Config))
			if err != nil {
				mu.Lock()
				if firstErr == nil {
					firstErr = err
				}
				mu.Unlock()
				cond.Broadcast()
				return
			}
			workers[i] = w
			w.e.twin = twin
			if coverOn {
				w.e.cover = map[*ssa.BasicBlock]struct{}{}
			}
			w.e.publish = func(alt []int8) {
				mu.Lock()
				pending = append(pending, alt)
				mu.Unlock()
				cond.Signal()
			}
			res := &JobResult{Job: job, EndKinds: map[string]int{}, EndMsgs: map[string]int{}}
			results[i] = res
			for {
				mu.Lock()
				for len(pending) == 0 && active > 0 && firstErr == nil {
					cond.Wait()
				}
				if len(pending) == 0 || total >= maxPaths || firstErr != nil {
					mu.Unlock()
					cond.Broadcast()
					return
				}
				pre := pending[len(pending)-1]
				pending = pending[:len(pending)-1]
				active++
				total++
				mu.Unlock()

				w.resetPath(job, pre)
				w.e.Paths++
				w.runOnePath(job, fn, res)
				w.e.TotalSteps += int64(w.e.steps)
				if job.Name == "src" {
					lastOut = strings.Join(w.e.out, "")
				}
				res.Decisions += int64(len(w.e.decisions))

				mu.Lock()
				pending = append(pending, w.e.pending...)
				active--
				mu.Unlock()
				cond.Broadcast()
			}
		}(i)
	}
	wg.Wait()
	if firstErr != nil {
		for _, w := range workers {
			if w != nil {
				w.solver.Close()
			}
		}
		return nil, firstErr
	}
	agg := &JobResult{Job: job, EndKinds: map[string]int{}, EndMsgs: map[string]int{}, Reached: map[string]int{},
		Asserts: map[string]int{}, Fns: map[string]bool{}}
	agg.Truncated = len(pending) > 0
	for i, r := range results {
		w := workers[i]
		if r == nil || w == nil {
			continue
		}
		for k, v := range r.EndKinds {
			agg.EndKinds[k] += v
		}
		for k, v := range r.EndMsgs {
			agg.EndMsgs[k] += v
		}
		agg.Decisions += r.Decisions
		agg.NonTrivial += r.NonTrivial
		if len(agg.Samples) < 3 {
			agg.Samples = append(agg.Samples, r.Samples...)
		}
		agg.Paths += w.e.Paths
		agg.Steps += w.e.TotalSteps
		agg.Folded += w.e.SimplifiedAway
		if w.e.MaxStepsCompleted > agg.MaxSteps {
			agg.MaxSteps = w.e.MaxStepsCompleted
		}
		agg.Violations = append(agg.Violations, w.e.Violations...)
		for k, v := range w.e.reached {
			agg.Reached[k] += v
		}
		for k, v := range w.e.asserts {
			agg.Asserts[k] += v
		}
		for k := range w.e.fnsRun {
			agg.Fns[k] = true
		}
		if coverOn {
			coverMu.Lock()
			for b := range w.e.cover {
				coverHit[b] = true
			}
			coverMu.Unlock()
		}
		agg.Queries += w.solver.Queries
		agg.Sat += w.solver.Sat
		agg.Unsat += w.solver.Unsat
		agg.Unknown += w.solver.Unknown
		agg.SolverTime += w.solver.Time
		w.solver.Close()
	}
	agg.Wall = time.Since(t0)
	sort.Slice(agg.Violations, func(i, j int) bool {
		a, b := agg.Violations[i], agg.Violations[j]
		if a.Class != b.Class {
			return a.Class < b.Class
		}
		return len(a.Path) < len(b.Path)
	})
	return agg, nil
}

// Inconclusive counts paths that ended without a verdict.
func (r *JobResult) Inconclusive() int {
	n := 0
	for k, v := range r.EndKinds {
		switch k {
		case "completed", "infeasible", "violated", "exit", "panic", "budget":
		default:
			n += v
		}
	}
	return n
}

// coreConfigFiles: the "core" configuration = the shipped test configuration without the
// large device / ActiveRecord / test-only files. Used by the program-level jobs whose
// behaviour does not depend on those classes; always stated in the job's bound.
var coreConfigFiles = []string{"array.json", "bool.json", "class.json", "enumerable.json", "false.json", "float.json", "hash.json",
	"identifier.json", "integer.json", "kernel.json", "nil.json", "object.json", "proc.json", "range.json", "runtime_error.json",
	"string.json", "symbol.json", "true.json", "untyped.json"}

var configRoots = map[string]string{}

func configRoot(name string) string {
	if r, ok := configRoots[name]; ok {
		return r
	}
	return configRoots[""]
}

// setupConfigRoots creates, under dir, one root directory per configuration variant, each
// holding a .ti-config directory of symlinks into /repo/test/.ti-config.
func setupConfigRoots(dir string) error {
	full := filepath.Join(dir, "cfg-full")
	os.MkdirAll(full, 0o755)
	if err := os.Symlink(filepath.Join(repoDir, "test", ".ti-config"), filepath.Join(full, ".ti-config")); err != nil {
		return err
	}
	configRoots[""] = full
	core := filepath.Join(dir, "cfg-core")
	os.MkdirAll(filepath.Join(core, ".ti-config"), 0o755)
	for _, f := range coreConfigFiles {
		src := filepath.Join(repoDir, "test", ".ti-config", f)
		if _, err := os.Stat(src); err == nil {
			os.Symlink(src, filepath.Join(core, ".ti-config", f))
		}
	}
	configRoots["core"] = core
	// "rev": the whole shipped configuration with every file renamed so that the loader's
	// glob order is the reverse of the shipped one (C19: file names must not matter)
	rev := filepath.Join(dir, "cfg-rev")
	os.MkdirAll(filepath.Join(rev, ".ti-config"), 0o755)
	ents, _ := os.ReadDir(filepath.Join(repoDir, "test", ".ti-config"))
	var names []string
	for _, e := range ents {
		if strings.HasSuffix(e.Name(), ".json") {
			names = append(names, e.Name())
		}
	}
	sort.Strings(names)
	for i, f := range names {
		os.Symlink(filepath.Join(repoDir, "test", ".ti-config", f), filepath.Join(rev, ".ti-config", fmt.Sprintf("%03d_%s", len(names)-i, f)))
	}
	configRoots["rev"] = rev
	// "extra": the shipped configuration plus declarations of classes no example program
	// mentions, whose methods are named like common builtin methods (C20)
	extra := filepath.Join(dir, "cfg-extra")
	os.MkdirAll(filepath.Join(extra, ".ti-config"), 0o755)
	for _, f := range names {
		os.Symlink(filepath.Join(repoDir, "test", ".ti-config", f), filepath.Join(extra, ".ti-config", f))
	}
	for name, content := range extraConfigFiles {
		os.WriteFile(filepath.Join(extra, ".ti-config", name), []byte(content), 0o644)
	}
	configRoots["extra"] = extra
	return nil
}

// extraConfigFiles: classes Zzverifa (Builtin frame, sorted before and after the shipped files)
// and Zzverifb (another frame, extends Array) that no example program mentions.
var extraConfigFiles = map[string]string{
	"000_zzverifa.json": `{"frame": "Builtin", "class": "Zzverifa", "instance_methods": [
 {"name": "first", "arguments": [{"type": ["String"]}], "return_type": {"type": ["Float"]}},
 {"name": "push", "arguments": [], "return_type": {"type": ["Float"]}},
 {"name": "to_s", "arguments": [{"type": ["Int"]}], "return_type": {"type": ["Int"]}},
 {"name": "nil?", "arguments": [{"type": ["Int"]}], "return_type": {"type": ["Int"]}},
 {"name": "each", "arguments": [], "block_parameters": ["String"], "return_type": {"type": ["String"]}},
 {"name": "+", "arguments": [{"type": ["Symbol"]}], "return_type": {"type": ["Symbol"]}},
 {"name": "puts", "arguments": [{"type": ["Int"]}], "return_type": {"type": ["Int"]}}],
 "class_methods": [{"name": "new", "arguments": [{"type": ["Int"]}], "return_type": {"type": ["Zzverifa"]}}, {"name": "methods", "arguments": [{"type": ["Int"]}], "return_type": {"type": ["Int"]}}]}`,
	"zzz_zzverifb.json": `{"frame": "Zzframe", "class": "Zzverifb", "extends": ["Array"], "instance_methods": [
 {"name": "first", "arguments": [], "return_type": {"type": ["Symbol"]}},
 {"name": "sleep_ms", "arguments": [{"type": ["String"]}], "return_type": {"type": ["String"]}},
 {"name": "length", "arguments": [{"type": ["Int"]}], "return_type": {"type": ["String"]}}],
 "class_methods": [], "constants": [{"name": "MAX", "return_type": {"type": ["String"]}}]}`,
}

func sumCounts(m map[string]int) int {
	n := 0
	for _, v := range m {
		n += v
	}
	return n
}
