package main

import "strings"

func init() {
	register(&Property{ID: "C23",
		Jobs: func(tier string) []*Job {
			return []*Job{f4Job("suggest", "VerifSuggest", 0, []string{"ran"}, []string{"C23-own", "C23-unrel"},
				"--suggest on a cursor row holding a receiver (alone or with a trailing dot) after a user hierarchy Bb < Aa (own, inherited, private, class methods) and an unrelated class Zz: receivers = user instance, user class, a value of a configured class (kind Integer/String a solver variable), an array literal; asserted: own / inherited / Object methods listed, methods of unrelated classes, wrong-side (class vs instance) methods and another class's private methods not listed")}
		},
		Custom:    replaySuggest,
		Filter:    func(v *Violation) bool { return strings.HasPrefix(v.ID, "C23") },
		Stubs:     f4Stubs,
		Functions: []string{"ti/cmd.PrintSuggestionsForLsp", "ti/cmd.isSuggest", "ti/cmd.isParentClass", "ti/cmd.calculateObjectClassAndIsStatic", "ti/cmd.isSuggestForKernelOrObjectClass", "(*ti/parser.Parser).SetLastEvaluatedT"},
		Outside:   "receivers other than the four kinds; modules; union receivers",
	})
}
