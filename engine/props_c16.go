package main

import "strings"

func init() {
	register(&Property{ID: "C16",
		Jobs: func(tier string) []*Job {
			js := []*Job{f4Job("classes", "VerifClasses", 0, []string{"ran"}, []string{"C16-cm", "C16-nope", "C16-new", "C16-bar"},
				"three-class chain C2 < C1 < C0 with a module (unused / included / extended), class << self, initialize(x), method foo defined at level 0..2 under no keyword / private / protected, public bar in C1; probes from a receiver at level 0..2: RECV.new(1).foo, RECV.cm, module method, undefined method, RECV.new without argument, C1.new(1).bar; returned kind Sym.a a solver variable; reference = Ruby's ancestor walk and visibility rules")}
			for i := 1; i <= 3; i++ {
				j := f4Job(sprintf("classes-collide%d", i), "VerifClasses", i, []string{"ran"}, []string{"C16-cm", "C16-nope"},
					"same family with one class named like a configured class's short name (Base / Relation / Table from the shipped ActiveRecord declarations)")
				j.Config = ""
				j.Bound += " [full shipped test configuration]"
				js = append(js, j)
			}
			js = append(js, f4Job("visibility", "VerifVisibility", 0, []string{"ran"}, []string{"C16-v-implicit", "C16-v-explicit", "C16-v-outside", "C16-v-fill"},
				"target method defined in the class / its superclass / an included module / a module the superclass includes, under public / private / protected; called with an implicit receiver and on another instance from an instance method of the class, and from top level; methods defined before the visibility keyword and in the other classes are probed for leaks; returned kind Sym.a a solver variable; reference = Ruby's visibility rules"))
			return js
		},
		Custom:    replayDemand,
		Filter:    func(v *Violation) bool { return strings.HasPrefix(v.ID, "C16") },
		Stubs:     f4Stubs,
		Functions: []string{"(*ti/eval.Class).Evaluation", "ti/base.getParentMethodT", "ti/base.GetMethodT", "ti/base.GetClassMethodT", "(*ti/eval/method_evaluator.instanceMethodStrategy).evaluate", "(*ti/eval/method_evaluator.objectIncludeStrategy).evaluate"},
		Outside:   "depth > 3, reopened classes, nested namespaces (C27), several modules",
	})
}
