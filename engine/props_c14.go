package main

import "strings"

func init() {
	register(&Property{ID: "C14",
		Jobs: func(tier string) []*Job {
			return []*Job{
				f4Job("kworder", "VerifKwOrder", 0, []string{"ran"}, []string{"C14-order"},
					"calls with up to 3 keyword arguments (values of solver-chosen kinds; shapes: all given, a required one missing, an undeclared one, a defaulted one omitted; one leading positional) against a user-defined method and a configured method, declaration order vs each of the 5 other permutations, in one path"),
			}
		},
		Custom:    replayPairNoSym,
		Filter:    func(v *Violation) bool { return strings.HasPrefix(v.ID, "C14") },
		Stubs:     append(f4Stubs, "Sym.kw(Integer, ka: Integer, kb: String, kc: Integer = default): configured method with keyword parameters, declared through the real parseArguments / defineBuiltinStaticMethod"),
		Functions: []string{"ti/eval/method_evaluator.prioritizeArgTs", "ti/eval/method_evaluator.prioritizeDefineArgNames", "ti/eval/method_evaluator.checkAndPropagateArgs", "(*ti/eval.Def).Evaluation"},
		Outside:   "more than 3 keywords; keyword splats; blocks",
	})
}
