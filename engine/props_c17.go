package main

import "strings"

func init() {
	register(&Property{ID: "C17",
		Jobs: func(tier string) []*Job {
			return []*Job{f4Job("blocks", "VerifBlocks", 0, []string{"ran"}, []string{"C17-p1"},
				"12 block skeletons (each with do/end and braces, each_with_index, a surplus parameter, Hash#each, Integer#times, String#each_char, Range#each, a shadowed outer variable, a block-local, nested blocks, a block without parameters) over receivers whose element kinds Sym.a/Sym.b are solver variables; each probe asserted against the method's declared block_parameters resolved against the receiver")}
		},
		Custom:    replayDemand,
		Filter:    func(v *Violation) bool { return strings.HasPrefix(v.ID, "C17") },
		Stubs:     f4Stubs,
		Functions: []string{"(*ti/eval.Do).setBlockParameters", "(*ti/eval.Do).appendParameterBeforeTypeCalculate", "ti/eval.recursiveCalculateType", "(*ti/eval.Do).prepareBlockScope", "ti/base.RestoreFrame"},
		Outside:   "receivers of more than 2 elements (the fixed [20] buffer), Item/UnifyArgument parameters, iterators outside the core configuration",
	})
}
