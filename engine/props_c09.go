package main

import "strings"

func init() {
	register(&Property{ID: "C09",
		Jobs: func(tier string) []*Job {
			return []*Job{f4Job("infer", "VerifInfer", 0, []string{"ran"}, []string{"C09-probe0"},
				"20 straight-line skeletons (literals, reassignment, array and hash literals, indexing, literal-key lookup and store, push/<< growth, OptionalUnify/Unify/Self/KeyValueArray/Argument/union returns, chains) with leaf kinds Sym.a/Sym.b/Sym.u as solver variables over NilClass/Integer/String/Bool; each dbtp probe is asserted against the reference model (as a set of classes: every variant order accepted)")}
		},
		Custom:    replayKindsProgramAlts,
		Filter:    func(v *Violation) bool { return strings.HasPrefix(v.ID, "C09") },
		Stubs:     f4Stubs,
		Functions: []string{"ti/eval/method_evaluator.calculateExecutionType", "(*ti/eval.Bind).handleScalarAsigntment", "(*ti/base.T).UnifyVariants", "(*ti/base.T).AppendVariant", "(*ti/base.T).HashReference", "ti/base.TypeToString"},
		Outside:   "nesting depth > 2, more than 2 elements, configurations other than the core subset of the shipped one",
	})
}
