package main

import (
	"fmt"
	"go/token"
	"go/types"
	"os"
	"strconv"
	"strings"

	"golang.org/x/tools/go/ssa"
)

// undoRec: addr != nil restores *addr = old; addr == nil runs the closure old.(func()).
type undoRec struct {
	addr *Value
	old  Value
}

type pathEnd struct {
	kind string // "infeasible","budget","exit","inconclusive","unsupported","depth"
	msg  string
}

type goPanic struct {
	kind string // nil-deref, index, slice, type-assert, explicit, div-zero, nil-map
	msg  string
	site string
}

type methodKey struct {
	t types.Type
	m *types.Func
}

type fnInfo struct {
	idx map[ssa.Value]int
	n   int
}

type deferred struct {
	fn   Value
	args []Value
}

type frame struct {
	fn     *ssa.Function
	info   *fnInfo
	env    []Value
	block  *ssa.BasicBlock
	prev   *ssa.BasicBlock
	defers []deferred
	result Value
	visits []int32
}

type Violation struct {
	ID      string // assertion id, or "nopanic" / "termination"
	Kind    string // "assert", "panic/<kind>", "budget"
	Class   string // finding class (harness Classify label, or derived from the failing site)
	Msg     string
	Model   map[string]uint64
	Path    []int8
	Site    string
	Witness map[string]string // harness witnesses evaluated under Model
	Job     string
}

type Engine struct {
	prog    *ssa.Program
	ts      *TermStore
	solver  *Solver
	globals map[*ssa.Global]*Value
	infos   map[*ssa.Function]*fnInfo
	consts  map[*ssa.Const]Value
	intr    map[string]func(e *Engine, fr *frame, args []Value) Value

	undo []undoRec

	// per-path
	pc        []*Term
	decisions []int8
	decIdx    int
	pending   [][]int8
	steps     int
	budget    int
	depth     int
	maxDepth  int
	varCount  map[string]int
	pathVars  []*Term
	out       []string
	reached   map[string]int

	// stats
	Paths, Infeasible, Inconclusive, BudgetHit, Panics int
	TotalSteps                                          int64
	Violations                                          []Violation
	fnsRun                                              map[string]bool
	cover                                               map[*ssa.BasicBlock]struct{} // -cover: blocks executed
	curSite                                             string
	source, fileName                                    string
	solverPC                                            []*Term
	stubLexer                                           bool
	flipAll, flipHere                                   bool // map ranges of the output printers fork on their direction (C05)
	outV                                                []Value
	marks                                               []int
	known                                               map[int]*Term
	stack                                               []*frame
	curClass                                            Value
	witnesses                                           map[string]Value
	witnessOrder                                        []string
	twin                                                bool
	asserts                                             map[string]int
	jobName                                             string
	srcCache                                            map[string][]string
	vfs                                                 map[string]string
	hotFn                                               string
	panicFn, panicExpr                                  string
	curIntr                                             string
	asciiProven                                         map[int]bool
	fnStubs                                             map[string]string
	envArena                                            []Value
	publish                                             func([]int8)
	fsRoot                                              string
	violatedOnPath                                      bool
	vfsMarks                                            []map[string]string
	vfsOnlyMarks                                        [][]string
	vfsOnlyPrefixes                                     []string
	globOrder                                           func([]string) []string
	methodCache                                         map[methodKey]*ssa.Function
	MaxStepsCompleted                                   int
	visArena                                            []int32
	excl                                                map[int]map[uint64]bool
	simpMemo                                            map[int]*Term
	SimplifiedAway                                      int
}

func NewEngine(prog *ssa.Program, solver *Solver) *Engine {
	e := &Engine{
		prog: prog, ts: NewTermStore(), solver: solver,
		globals: map[*ssa.Global]*Value{}, infos: map[*ssa.Function]*fnInfo{},
		consts: map[*ssa.Const]Value{}, intr: map[string]func(*Engine, *frame, []Value) Value{},
		varCount: map[string]int{}, reached: map[string]int{}, fnsRun: map[string]bool{}, methodCache: map[methodKey]*ssa.Function{},
		budget: 200000, maxDepth: 400,
	}
	registerIntrinsics(e)
	registerIntrinsics2(e)
	registerIntrinsics3(e)
	return e
}

func (e *Engine) info(fn *ssa.Function) *fnInfo {
	if fi, ok := e.infos[fn]; ok {
		return fi
	}
	fi := &fnInfo{idx: map[ssa.Value]int{}}
	add := func(v ssa.Value) {
		fi.idx[v] = fi.n
		fi.n++
	}
	for _, p := range fn.Params {
		add(p)
	}
	for _, p := range fn.FreeVars {
		add(p)
	}
	for _, b := range fn.Blocks {
		for _, in := range b.Instrs {
			if v, ok := in.(ssa.Value); ok {
				add(v)
			}
		}
	}
	e.infos[fn] = fi
	return fi
}

func (e *Engine) global(g *ssa.Global) *Value {
	if p, ok := e.globals[g]; ok {
		return p
	}
	p := new(Value)
	*p = zero(g.Type().(*types.Pointer).Elem())
	e.globals[g] = p
	return p
}

func (fr *frame) get(e *Engine, v ssa.Value) Value {
	switch v := v.(type) {
	case *ssa.Const:
		if c, ok := e.consts[v]; ok {
			return c
		}
		c := constValue(v)
		e.consts[v] = c
		return c
	case *ssa.Global:
		return e.global(v)
	case *ssa.Function:
		return v
	case *ssa.Builtin:
		return v
	}
	i, ok := fr.info.idx[v]
	if !ok {
		panic(fmt.Sprintf("get: no slot for %T %v in %s", v, v, fr.fn))
	}
	return fr.env[i]
}

func (fr *frame) set(v ssa.Value, x Value) { fr.env[fr.info.idx[v]] = x }

// ---- heap writes with undo ----

func (e *Engine) rawStore(addr *Value, v Value) {
	e.undo = append(e.undo, undoRec{addr: addr, old: *addr})
	*addr = v
}

func (e *Engine) store(addr *Value, v Value) {
	switch nv := v.(type) {
	case Struct:
		if old, ok := (*addr).(Struct); ok && len(old) == len(nv) {
			for i := range old {
				e.store(&old[i], nv[i])
			}
			return
		}
		e.rawStore(addr, copyVal(v))
	case Array:
		if old, ok := (*addr).(Array); ok && len(old) == len(nv) {
			for i := range old {
				e.store(&old[i], nv[i])
			}
			return
		}
		e.rawStore(addr, copyVal(v))
	default:
		e.rawStore(addr, v)
	}
}

// storeNoLog is store without undo records (same in-place semantics for structs and arrays,
// so that field addresses taken earlier stay valid).
func storeNoLog(addr *Value, v Value) {
	switch nv := v.(type) {
	case Struct:
		if old, ok := (*addr).(Struct); ok && len(old) == len(nv) {
			for i := range old {
				storeNoLog(&old[i], nv[i])
			}
			return
		}
		*addr = copyVal(v)
	case Array:
		if old, ok := (*addr).(Array); ok && len(old) == len(nv) {
			for i := range old {
				storeNoLog(&old[i], nv[i])
			}
			return
		}
		*addr = copyVal(v)
	default:
		*addr = v
	}
}

func (e *Engine) rollback(to int) {
	for i := len(e.undo) - 1; i >= to; i-- {
		u := e.undo[i]
		if u.addr == nil {
			u.old.(func())()
		} else {
			*u.addr = u.old
		}
	}
	e.undo = e.undo[:to]
}

// ---- path control ----

func (e *Engine) pushPC(c *Term) {
	idx := len(e.pc)
	e.pc = append(e.pc, c)
	if idx < len(e.solverPC) && e.solverPC[idx] == c {
		// already asserted by a previous path with the same prefix
	} else {
		e.solver.PopTo(idx)
		e.solverPC = e.solverPC[:min(idx, len(e.solverPC))]
		e.solver.Push(c)
		e.solverPC = append(e.solverPC, c)
	}
	e.learn(c)
}

// sync makes the solver's assertion stack equal to the current path condition.
func (e *Engine) sync() {
	if len(e.solverPC) > len(e.pc) {
		e.solver.PopTo(len(e.pc))
		e.solverPC = e.solverPC[:len(e.pc)]
	}
}

func (e *Engine) check(c *Term) string {
	e.sync()
	return e.solver.Check(c)
}

func (e *Engine) resetFacts() {
	e.asciiProven = map[int]bool{}
	e.known = map[int]*Term{}
	e.excl = map[int]map[uint64]bool{}
	e.simpMemo = map[int]*Term{}
}

func (e *Engine) learn(c *Term) {
	switch c.op {
	case "and":
		e.learn(c.args[0])
		e.learn(c.args[1])
	case "=":
		a, b := c.args[0], c.args[1]
		if a.op == "var" && b.op == "const" {
			e.known[a.id] = b
			e.simpMemo = map[int]*Term{}
		} else if b.op == "var" && a.op == "const" {
			e.known[b.id] = a
			e.simpMemo = map[int]*Term{}
		}
	case "var":
		if c.w == 0 {
			e.known[c.id] = e.ts.Bool(true)
			e.simpMemo = map[int]*Term{}
		}
	case "not":
		x := c.args[0]
		if x.op == "var" && x.w == 0 {
			e.known[x.id] = e.ts.Bool(false)
			e.simpMemo = map[int]*Term{}
		}
		if x.op == "=" {
			a, b := x.args[0], x.args[1]
			if b.op == "var" && a.op == "const" {
				a, b = b, a
			}
			if a.op == "var" && b.op == "const" {
				m := e.excl[a.id]
				if m == nil {
					m = map[uint64]bool{}
					e.excl[a.id] = m
				}
				m[b.val] = true
				e.simpMemo = map[int]*Term{}
			}
		}
		if x.op == "or" { // not (a or b) => not a, not b
			e.learn(e.ts.Not(x.args[0]))
			e.learn(e.ts.Not(x.args[1]))
		}
	}
}

// simplify rewrites t under the facts learned from the path condition.
func (e *Engine) simplify(t *Term) *Term {
	if t.IsConst() {
		return t
	}
	if r, ok := e.simpMemo[t.id]; ok {
		return r
	}
	var r *Term
	ts := e.ts
	switch t.op {
	case "var":
		if k, ok := e.known[t.id]; ok {
			r = k
		} else {
			r = t
		}
	case "not":
		r = ts.Not(e.simplify(t.args[0]))
	case "and":
		r = ts.And(e.simplify(t.args[0]), e.simplify(t.args[1]))
	case "or":
		r = ts.Or(e.simplify(t.args[0]), e.simplify(t.args[1]))
	case "ite":
		r = ts.Ite(e.simplify(t.args[0]), e.simplify(t.args[1]), e.simplify(t.args[2]))
	case "=", "bvult", "bvule", "bvslt", "bvsle":
		a, b := e.simplify(t.args[0]), e.simplify(t.args[1])
		if t.op == "=" {
			if a.op == "const" && b.op == "var" {
				a, b = b, a
			}
			if a.op == "var" && b.op == "const" {
				if m := e.excl[a.id]; m != nil && m[b.val] {
					r = ts.Bool(false)
					break
				}
			}
		}
		r = ts.Cmp(t.op, a, b)
	case "extract", "zext", "sext":
		a := e.simplify(t.args[0])
		if a.IsConst() {
			r = ts.Resize(a, t.w, t.op == "sext")
		} else if a == t.args[0] {
			r = t
		} else {
			r = ts.Resize(a, t.w, t.op == "sext")
		}
	case "bvneg":
		r = ts.Neg(e.simplify(t.args[0]))
	case "bvnot":
		r = ts.BVNot(e.simplify(t.args[0]))
	default:
		if len(t.args) == 2 {
			r = ts.Bin(t.op, e.simplify(t.args[0]), e.simplify(t.args[1]))
		} else {
			r = t
		}
	}
	e.simpMemo[t.id] = r
	return r
}

func (e *Engine) step(fr *frame, in ssa.Instruction) {
	e.steps++
	if e.steps > e.budget {
		e.hotFn = e.hotLoopOwner()
		panic(pathEnd{kind: "budget", msg: fmt.Sprintf("step budget %d exceeded; hot loop in %s (executing %s)", e.budget, e.hotFn, fr.fn)})
	}
}

// decide resolves a symbolic boolean, forking if both sides are feasible.
func (e *Engine) decide(c *Term) bool {
	if !c.IsConst() {
		c2 := e.simplify(c)
		if c2.IsConst() {
			e.SimplifiedAway++
		}
		c = c2
	}
	if c.op == "true" {
		return true
	}
	if c.op == "false" {
		return false
	}
	if e.decIdx < len(e.decisions) {
		d := e.decisions[e.decIdx]
		e.decIdx++
		if d == 1 {
			e.pushPC(c)
			return true
		}
		e.pushPC(e.ts.Not(c))
		return false
	}
	r := e.check(c)
	var take bool
	switch {
	case r == "sat":
		r2 := e.check(e.ts.Not(c))
		if r2 == "sat" {
			alt := make([]int8, len(e.decisions)+1)
			copy(alt, e.decisions)
			alt[len(e.decisions)] = 0
			e.pending = append(e.pending, alt)
		} else if r2 != "unsat" {
			panic(pathEnd{kind: "inconclusive", msg: "solver: " + r2})
		}
		take = true
	case r == "unsat":
		take = false
	default:
		panic(pathEnd{kind: "inconclusive", msg: "solver: " + r})
	}
	if take {
		e.decisions = append(e.decisions, 1)
		e.pushPC(c)
	} else {
		e.decisions = append(e.decisions, 0)
		e.pushPC(e.ts.Not(c))
	}
	e.decIdx++
	return take
}

func (e *Engine) freshVar(name string, w int) *Term {
	n := e.varCount[name]
	e.varCount[name] = n + 1
	v := e.ts.Var(fmt.Sprintf("%s_%d", name, n), w)
	e.pathVars = append(e.pathVars, v)
	return v
}

func (e *Engine) site(fr *frame, in ssa.Instruction) string {
	pos := in.Pos()
	p := e.prog.Fset.Position(pos)
	e.panicFn = fr.fn.String()
	e.panicExpr = ""
	if pos == token.NoPos {
		return fr.fn.String()
	}
	e.panicExpr = e.srcLine(p.Filename, p.Line)
	return fmt.Sprintf("%s (%s:%d)", fr.fn.String(), p.Filename, p.Line)
}

// srcLine returns the trimmed text of a source line (used in finding classes instead of
// line numbers, which shift under unrelated edits).
func (e *Engine) srcLine(file string, line int) string {
	if e.srcCache == nil {
		e.srcCache = map[string][]string{}
	}
	ls, ok := e.srcCache[file]
	if !ok {
		var b []byte
		if ov, ok := overlayFiles[file]; ok {
			b = ov
		} else {
			b, _ = os.ReadFile(file)
		}
		ls = strings.Split(string(b), "\n")
		e.srcCache[file] = ls
	}
	if line-1 < len(ls) && line >= 1 {
		return strings.Join(strings.Fields(ls[line-1]), " ")
	}
	return ""
}

func (e *Engine) violation(id, kind, msg string, cond *Term) {
	e.violationC(id, kind, "", msg, cond)
}

// violationC records a counterexample. The model is taken from the solver for the current
// path condition (plus cond); the harness's class label and witnesses are evaluated under it.
func (e *Engine) violationC(id, kind, class, msg string, cond *Term) {
	vars := e.pathVars
	e.sync()
	m, res := e.solver.Model(cond, vars)
	if res != "sat" {
		e.Violations = append(e.Violations, Violation{ID: id, Kind: "inconclusive", Class: "inconclusive-model", Msg: "model query: " + res + " / " + msg, Job: e.jobName})
		return
	}
	v := Violation{ID: id, Kind: kind, Msg: msg, Model: m, Path: append([]int8(nil), e.decisions...), Site: e.curSite, Job: e.jobName}
	v.Witness = map[string]string{}
	for _, n := range e.witnessOrder {
		v.Witness[n] = e.evalString(e.witnesses[n], m)
	}
	if class == "" && e.curClass != nil {
		class = e.evalString(e.curClass, m)
	}
	v.Class = sanitizeClass(class)
	e.Violations = append(e.Violations, v)
}

// ---- running functions ----

func (e *Engine) interpretable(fn *ssa.Function) bool {
	if fn.Blocks == nil {
		return false
	}
	pkg := fn.Pkg
	if pkg == nil && fn.Origin() != nil {
		pkg = fn.Origin().Pkg
	}
	if pkg == nil {
		return true // synthetic wrappers, bound methods
	}
	p := pkg.Pkg.Path()
	if p == "ti" || strings.HasPrefix(p, "ti/") {
		return true
	}
	switch p {
	case "errors", "slices", "maps", "cmp":
		return true
	}
	return false
}

func (e *Engine) call(fr *frame, fnv Value, args []Value, in ssa.Instruction) Value {
	switch fn := fnv.(type) {
	case *ssa.Function:
		if fn == nil {
			panic(goPanic{kind: "nil-deref", msg: "call of nil function"})
		}
		return e.callFunction(fr, fn, args, nil)
	case *Closure:
		return e.callFunction(fr, fn.Fn, args, fn.Env)
	case *ssa.Builtin:
		return e.callBuiltin(fr, fn, args, in)
	}
	panic(fmt.Sprintf("call: bad function value %T", fnv))
}

func (e *Engine) callFunction(caller *frame, fn *ssa.Function, args []Value, env []Value) Value {
	name := fn.String()
	if st, ok := e.fnStubs[name]; ok {
		switch {
		case strings.HasPrefix(st, "str:"):
			return st[4:]
		case strings.HasPrefix(st, "err:"):
			return e.errorValue(st[4:])
		}
	}
	if f, ok := e.intr[name]; ok {
		e.curIntr = name
		return f(e, caller, args)
	}
	if e.stubLexer && name == "(*ti/lexer.Lexer).Advance" {
		named := fn.Pkg.Pkg.Scope().Lookup("Lexer").Type()
		fn = e.prog.LookupMethod(types.NewPointer(named), fn.Pkg.Pkg, "verifAdvance")
		name = fn.String()
	}
	if strings.HasPrefix(name, "slices.SortFunc[") && os.Getenv("VERIF_INSERTION_SORT") != "" {
		return e.sortFunc(caller, args)
	}
	if fn.Pkg != nil && fn.Pkg.Pkg.Path() == "ti/verifapi" {
		return e.verifapi(caller, fn, args)
	}
	if fn.Name() == "init" && fn.Pkg != nil {
		if pp := fn.Pkg.Pkg.Path(); pp != "ti" && !strings.HasPrefix(pp, "ti/") {
			return nil // std package init: skipped
		}
	}
	if !e.interpretable(fn) {
		panic(pathEnd{kind: "unsupported", msg: "no intrinsic for " + name})
	}
	e.fnsRun[name] = true
	e.depth++
	if e.depth > e.maxDepth {
		if os.Getenv("VERIF_DEBUG") != "" {
			for i, f := range e.stack {
				if i < 30 {
					fmt.Println("  stack", i, f.fn.String())
				}
			}
		}
		// name the function that recurses: the one with the most activations on the stack
		cnt := map[string]int{}
		best := name
		for _, f := range e.stack {
			n := f.fn.String()
			cnt[n]++
			if cnt[n] > cnt[best] {
				best = n
			}
		}
		panic(goPanic{kind: "stack-overflow", msg: "unbounded recursion in " + shortFn(best)})
	}
	defer func() { e.depth-- }()
	fi := e.info(fn)
	envBase, visBase := len(e.envArena), len(e.visArena)
	if envBase+fi.n > cap(e.envArena) {
		// calls are LIFO: frames carve their register files out of one arena. When the arena
		// has to grow, older frames keep their (still valid) slices of the old array.
		na := make([]Value, envBase, 2*cap(e.envArena)+fi.n+4096)
		e.envArena = na
	}
	e.envArena = e.envArena[:envBase+fi.n]
	env0 := e.envArena[envBase : envBase+fi.n : envBase+fi.n]
	clear(env0)
	nb := len(fn.Blocks)
	if visBase+nb > cap(e.visArena) {
		e.visArena = make([]int32, visBase, 2*cap(e.visArena)+nb+4096)
	}
	e.visArena = e.visArena[:visBase+nb]
	vis0 := e.visArena[visBase : visBase+nb : visBase+nb]
	clear(vis0)
	fr := &frame{fn: fn, info: fi, env: env0, visits: vis0}
	for i, p := range fn.Params {
		fr.env[fi.idx[p]] = args[i]
	}
	for i, p := range fn.FreeVars {
		fr.env[fi.idx[p]] = env[i]
	}
	for _, l := range fn.Locals {
		p := new(Value)
		*p = zero(l.Type().(*types.Pointer).Elem())
		fr.env[fi.idx[l]] = p
	}
	fr.block = fn.Blocks[0]
	e.stack = append(e.stack, fr)
	sp := len(e.stack)
	defer func() {
		e.stack = e.stack[:sp-1]
		if len(e.envArena) >= envBase {
			e.envArena = e.envArena[:envBase]
		}
		if len(e.visArena) >= visBase {
			e.visArena = e.visArena[:visBase]
		}
	}()
	e.run(fr)
	return fr.result
}

func (e *Engine) run(fr *frame) {
	for fr.block != nil {
		b := fr.block
		fr.visits[b.Index]++
		if e.cover != nil {
			e.cover[b] = struct{}{}
		}
		// phis
		instrs := b.Instrs
		i := 0
		if fr.prev != nil {
			var predIdx int
			for k, p := range b.Preds {
				if p == fr.prev {
					predIdx = k
					break
				}
			}
			// evaluate phis simultaneously
			var tmp []Value
			for ; i < len(instrs); i++ {
				phi, ok := instrs[i].(*ssa.Phi)
				if !ok {
					break
				}
				tmp = append(tmp, fr.get(e, phi.Edges[predIdx]))
			}
			for k := 0; k < len(tmp); k++ {
				fr.set(instrs[k].(*ssa.Phi), tmp[k])
			}
		}
		next := false
		for ; i < len(instrs); i++ {
			in := instrs[i]
			e.step(fr, in)
			if e.visit(fr, in) {
				next = true
				break
			}
		}
		if !next {
			panic("fell off block in " + fr.fn.String())
		}
	}
}

func (e *Engine) runDefers(fr *frame) {
	for len(fr.defers) > 0 {
		d := fr.defers[len(fr.defers)-1]
		fr.defers = fr.defers[:len(fr.defers)-1]
		e.call(fr, d.fn, d.args, nil)
	}
}

func (e *Engine) prepareCall(fr *frame, c *ssa.CallCommon) (Value, []Value) {
	var args []Value
	var fn Value
	if c.IsInvoke() {
		recv := fr.get(e, c.Value).(Iface)
		if recv.t == nil {
			panic(goPanic{kind: "nil-deref", msg: "method call on nil interface: " + c.Method.Name()})
		}
		mk := methodKey{recv.t, c.Method}
		m, cached := e.methodCache[mk]
		if !cached {
			m = e.prog.LookupMethod(recv.t, c.Method.Pkg(), c.Method.Name())
			e.methodCache[mk] = m
		}
		if m == nil {
			panic(fmt.Sprintf("no method %s on %s", c.Method.Name(), recv.t))
		}
		fn = m
		args = append(args, recv.v)
	} else {
		fn = fr.get(e, c.Value)
	}
	for _, a := range c.Args {
		args = append(args, copyVal(fr.get(e, a)))
	}
	return fn, args
}

// visit executes one instruction; returns true if control transferred (jump/return).
func (e *Engine) visit(fr *frame, in ssa.Instruction) bool {
	switch in := in.(type) {
	case *ssa.DebugRef:
	case *ssa.UnOp:
		fr.set(in, e.unop(fr, in, fr.get(e, in.X)))
	case *ssa.BinOp:
		fr.set(in, e.binop(fr, in, in.Op, in.X.Type(), fr.get(e, in.X), fr.get(e, in.Y)))
	case *ssa.Call:
		e.curSite = ""
		fn, args := e.prepareCall(fr, &in.Call)
		fr.set(in, e.call(fr, fn, args, in))
	case *ssa.ChangeInterface:
		fr.set(in, fr.get(e, in.X))
	case *ssa.ChangeType:
		fr.set(in, fr.get(e, in.X))
	case *ssa.Convert:
		fr.set(in, e.conv(in.Type(), in.X.Type(), fr.get(e, in.X)))
	case *ssa.MakeInterface:
		fr.set(in, Iface{t: in.X.Type(), v: fr.get(e, in.X)})
	case *ssa.Extract:
		fr.set(in, fr.get(e, in.Tuple).(Tuple)[in.Index])
	case *ssa.Slice:
		fr.set(in, e.sliceOp(fr, in))
	case *ssa.Return:
		switch len(in.Results) {
		case 0:
		case 1:
			fr.result = copyVal(fr.get(e, in.Results[0]))
		default:
			res := make(Tuple, len(in.Results))
			for i, r := range in.Results {
				res[i] = copyVal(fr.get(e, r))
			}
			fr.result = res
		}
		fr.block = nil
		return true
	case *ssa.RunDefers:
		e.runDefers(fr)
	case *ssa.Panic:
		v := fr.get(e, in.X)
		panic(goPanic{kind: "explicit", msg: fmt.Sprint(ifaceString(v)), site: e.site(fr, in)})
	case *ssa.Store:
		addr := fr.get(e, in.Addr).(*Value)
		if addr == nil {
			panic(goPanic{kind: "nil-deref", msg: "store through nil pointer", site: e.site(fr, in)})
		}
		if _, ok := in.Addr.(*ssa.Alloc); ok {
			// a cell created by this activation: unreachable after the path is rolled
			// back, so the write needs no undo record
			storeNoLog(addr, fr.get(e, in.Val))
		} else {
			e.store(addr, fr.get(e, in.Val))
		}
	case *ssa.If:
		c := fr.get(e, in.Cond)
		var b bool
		switch c := c.(type) {
		case bool:
			b = c
		case *Term:
			b = e.decide(c)
		default:
			panic(fmt.Sprintf("If: cond %T", c))
		}
		succ := 1
		if b {
			succ = 0
		}
		fr.prev, fr.block = fr.block, fr.block.Succs[succ]
		return true
	case *ssa.Jump:
		fr.prev, fr.block = fr.block, fr.block.Succs[0]
		return true
	case *ssa.Defer:
		fn, args := e.prepareCall(fr, &in.Call)
		fr.defers = append(fr.defers, deferred{fn, args})
	case *ssa.Go:
		// Sequential model of `go f()`: the goroutine body runs to completion at the go
		// statement (sound for main's single worker goroutine, whose only communication is
		// the final `done <- true`; the 500 ms watchdog is modelled by the step budget).
		fn, args := e.prepareCall(fr, &in.Call)
		e.call(fr, fn, args, nil)
	case *ssa.MakeChan:
		fr.set(in, &Chan{})
	case *ssa.Send:
		ch, _ := fr.get(e, in.Chan).(*Chan)
		if ch == nil {
			panic(pathEnd{kind: "unsupported", msg: "send on nil channel"})
		}
		ch.buf = append(ch.buf, copyVal(fr.get(e, in.X)))
	case *ssa.Select:
		// the first receive state whose channel holds a value; a blocking select with none
		// ready cannot happen in the sequential model (the watchdog channel never fires)
		res := make(Tuple, 2)
		res[0], res[1] = int64(-1), false
		for _, st := range in.States {
			if st.Dir == types.RecvOnly {
				res = append(res, zero(st.Chan.Type().Underlying().(*types.Chan).Elem()))
			}
		}
		k := 0
		for i, st := range in.States {
			if st.Dir != types.RecvOnly {
				continue
			}
			ch, _ := fr.get(e, st.Chan).(*Chan)
			if res[0].(int64) < 0 && ch != nil && len(ch.buf) > 0 {
				res[0], res[1] = int64(i), true
				res[2+k] = ch.buf[0]
				ch.buf = ch.buf[1:]
			}
			k++
		}
		if res[0].(int64) < 0 {
			if in.Blocking {
				panic(pathEnd{kind: "unsupported", msg: "blocking select with no ready channel"})
			}
		}
		fr.set(in, res)
	case *ssa.Alloc:
		var addr *Value
		if in.Heap {
			addr = new(Value)
			fr.set(in, addr)
		} else {
			addr = fr.get(e, in).(*Value)
		}
		*addr = zero(in.Type().(*types.Pointer).Elem())
	case *ssa.MakeSlice:
		n := int(asInt(fr.get(e, in.Len)))
		c := int(asInt(fr.get(e, in.Cap)))
		bk := &Backing{elems: make([]Value, c)}
		te := in.Type().Underlying().(*types.Slice).Elem()
		for i := range bk.elems {
			bk.elems[i] = zero(te)
		}
		fr.set(in, Slice{arr: bk, off: 0, len: n, cap: c})
	case *ssa.MakeMap:
		fr.set(in, &Map{index: map[string]int{}})
	case *ssa.Range:
		// FlipAllMaps applies to the range statements of the output printers (package ti/cmd)
		e.flipHere = e.flipAll && fr.fn != nil && fr.fn.Pkg != nil && fr.fn.Pkg.Pkg.Path() == "ti/cmd"
		fr.set(in, e.rangeIter(fr.get(e, in.X), in.X.Type()))
		e.flipHere = false
	case *ssa.Next:
		fr.set(in, fr.get(e, in.Iter).(*Iter).next(e))
	case *ssa.FieldAddr:
		p := fr.get(e, in.X).(*Value)
		if p == nil {
			panic(goPanic{kind: "nil-deref", msg: "field " + fieldName(in), site: e.site(fr, in)})
		}
		fr.set(in, &(*p).(Struct)[in.Field])
	case *ssa.Field:
		fr.set(in, fr.get(e, in.X).(Struct)[in.Field])
	case *ssa.IndexAddr:
		x := fr.get(e, in.X)
		idx := e.concreteInt(fr.get(e, in.Index), "index")
		switch x := x.(type) {
		case Slice:
			if idx < 0 || idx >= int64(x.len) {
				panic(goPanic{kind: "index", msg: fmt.Sprintf("index out of range [%d] with length %d", idx, x.len), site: e.site(fr, in)})
			}
			fr.set(in, &x.arr.elems[x.off+int(idx)])
		case *Value:
			if x == nil {
				panic(goPanic{kind: "nil-deref", msg: "index of nil array pointer", site: e.site(fr, in)})
			}
			a := (*x).(Array)
			if idx < 0 || idx >= int64(len(a)) {
				panic(goPanic{kind: "index", msg: fmt.Sprintf("index out of range [%d] with length %d", idx, len(a)), site: e.site(fr, in)})
			}
			fr.set(in, &a[idx])
		default:
			panic(fmt.Sprintf("IndexAddr on %T", x))
		}
	case *ssa.Index:
		x := fr.get(e, in.X)
		idxv := fr.get(e, in.Index)
		if c, ok := x.(*ChoiceStr); ok {
			if r, ok := e.choiceIndex(c, idxv); ok {
				fr.set(in, r)
				break
			}
			x = e.concretize(c)
		}
		switch x := x.(type) {
		case Array:
			idx := e.concreteInt(idxv, "index")
			if idx < 0 || idx >= int64(len(x)) {
				panic(goPanic{kind: "index", msg: "array index", site: e.site(fr, in)})
			}
			fr.set(in, x[idx])
		case string:
			idx := e.concreteInt(idxv, "index")
			if idx < 0 || idx >= int64(len(x)) {
				panic(goPanic{kind: "index", msg: fmt.Sprintf("index out of range [%d] with length %d", idx, len(x)), site: e.site(fr, in)})
			}
			fr.set(in, int64(x[idx]))
		case *Rope:
			idx := e.concreteInt(idxv, "index")
			if !e.ropeASCII(x) {
				panic(pathEnd{kind: "unsupported", msg: "byte index of non-ascii rope"})
			}
			if idx < 0 || idx >= int64(len(x.elems)) {
				panic(goPanic{kind: "index", msg: "string index", site: e.site(fr, in)})
			}
			fr.set(in, ropeByte(e, x.elems[idx]))
		default:
			panic(fmt.Sprintf("Index on %T", x))
		}
	case *ssa.Lookup:
		fr.set(in, e.lookup(fr, in))
	case *ssa.MapUpdate:
		m := fr.get(e, in.Map).(*Map)
		if m == nil {
			panic(goPanic{kind: "nil-map", msg: "assignment to entry in nil map", site: e.site(fr, in)})
		}
		e.mapUpdate(m, copyVal(fr.get(e, in.Key)), copyVal(fr.get(e, in.Value)))
	case *ssa.TypeAssert:
		fr.set(in, e.typeAssert(fr, in))
	case *ssa.MakeClosure:
		var env []Value
		for _, b := range in.Bindings {
			env = append(env, fr.get(e, b))
		}
		fr.set(in, &Closure{Fn: in.Fn.(*ssa.Function), Env: env})
	default:
		panic(pathEnd{kind: "unsupported", msg: fmt.Sprintf("instruction %T in %s", in, fr.fn)})
	}
	return false
}

func fieldName(in *ssa.FieldAddr) string {
	st := in.X.Type().Underlying().(*types.Pointer).Elem().Underlying().(*types.Struct)
	return st.Field(in.Field).Name()
}

func asInt(v Value) int64 {
	switch v := v.(type) {
	case int64:
		return v
	}
	panic(fmt.Sprintf("asInt: %T", v))
}

// concreteInt concretises a (possibly symbolic) int by forking over feasible values is not
// implemented in the spike: symbolic indices are unsupported.
func (e *Engine) concreteInt(v Value, what string) int64 {
	switch v := v.(type) {
	case int64:
		return v
	case *Term:
		if v.IsConst() {
			return sext(v.val, v.w)
		}
		if s := e.simplify(v); s.IsConst() {
			return sext(s.val, s.w)
		}
		// fork over the values of a table term / small-domain term
		if r, ok := e.concretizeTerm(v).(int64); ok {
			return r
		}
		panic(pathEnd{kind: "unsupported", msg: "symbolic " + what})
	}
	panic(fmt.Sprintf("concreteInt: %T", v))
}

func ifaceString(v Value) string {
	if i, ok := v.(Iface); ok {
		return fmt.Sprint(i.v)
	}
	return fmt.Sprint(v)
}

func (e *Engine) typeAssert(fr *frame, in *ssa.TypeAssert) Value {
	x := fr.get(e, in.X).(Iface)
	var ok bool
	var v Value
	if it, isIface := in.AssertedType.Underlying().(*types.Interface); isIface {
		if x.t != nil && types.Implements(x.t, it) {
			ok = true
			v = x
		} else {
			v = Iface{}
		}
	} else {
		if x.t != nil && types.Identical(x.t, in.AssertedType) {
			ok = true
			v = x.v
		} else {
			v = zero(in.AssertedType)
		}
	}
	if in.CommaOk {
		return Tuple{v, ok}
	}
	if !ok {
		ts := "nil"
		if x.t != nil {
			ts = x.t.String()
		}
		panic(goPanic{kind: "type-assert", msg: fmt.Sprintf("interface conversion: interface is %s, not %s", ts, in.AssertedType), site: e.site(fr, in)})
	}
	return v
}

func (e *Engine) sliceOp(fr *frame, in *ssa.Slice) Value {
	x := fr.get(e, in.X)
	var lo, hi, max int64 = 0, -1, -1
	if in.Low != nil {
		lo = e.concreteInt(fr.get(e, in.Low), "slice bound")
	}
	if in.High != nil {
		hi = e.concreteInt(fr.get(e, in.High), "slice bound")
	}
	if in.Max != nil {
		max = e.concreteInt(fr.get(e, in.Max), "slice bound")
	}
	if c, ok := x.(*ChoiceStr); ok {
		okAll := true
		for _, a := range c.alts {
			h := hi
			if h < 0 {
				h = int64(len(a))
			}
			if lo < 0 || lo > h || h > int64(len(a)) {
				okAll = false
			}
		}
		if okAll {
			return e.liftStr(c, func(a string) Value {
				h := hi
				if h < 0 {
					h = int64(len(a))
				}
				return a[lo:h]
			})
		}
		x = e.concretize(c)
	}
	oob := func(a, b, c int64) {
		panic(goPanic{kind: "slice", msg: fmt.Sprintf("slice bounds out of range [%d:%d] with capacity/length %d", a, b, c), site: e.site(fr, in)})
	}
	switch x := x.(type) {
	case string:
		if hi < 0 {
			hi = int64(len(x))
		}
		if lo < 0 || lo > hi || hi > int64(len(x)) {
			oob(lo, hi, int64(len(x)))
		}
		return x[lo:hi]
	case *Rope:
		if !e.ropeASCII(x) {
			panic(pathEnd{kind: "unsupported", msg: "slice of non-ascii rope"})
		}
		if hi < 0 {
			hi = int64(len(x.elems))
		}
		if lo < 0 || lo > hi || hi > int64(len(x.elems)) {
			oob(lo, hi, int64(len(x.elems)))
		}
		return mkRope(x.elems[lo:hi], true)
	case Slice:
		if hi < 0 {
			hi = int64(x.len)
		}
		if max < 0 {
			max = int64(x.cap)
		}
		if lo < 0 || lo > hi || hi > max || max > int64(x.cap) {
			oob(lo, hi, int64(x.cap))
		}
		if x.arr == nil {
			return Slice{}
		}
		return Slice{arr: x.arr, off: x.off + int(lo), len: int(hi - lo), cap: int(max - lo)}
	case *Value: // *array
		if x == nil {
			panic(goPanic{kind: "nil-deref", msg: "slice of nil array pointer", site: e.site(fr, in)})
		}
		a := (*x).(Array)
		if hi < 0 {
			hi = int64(len(a))
		}
		if max < 0 {
			max = int64(len(a))
		}
		if lo < 0 || lo > hi || hi > max || max > int64(len(a)) {
			oob(lo, hi, int64(len(a)))
		}
		// share storage with the array
		bk := &Backing{elems: a}
		return Slice{arr: bk, off: int(lo), len: int(hi - lo), cap: int(max - lo)}
	}
	panic(fmt.Sprintf("sliceOp on %T", x))
}

// hotLoopOwner returns the function on the call stack whose activation has the most-visited
// basic block: the owner of the loop that does not terminate.
func (e *Engine) hotLoopOwner() string {
	best, bestN := "", int32(-1)
	for _, fr := range e.stack {
		for _, n := range fr.visits {
			if n > bestN {
				bestN = n
				best = fr.fn.String()
			}
		}
	}
	return best
}

// sanitizeClass makes a finding class printable (non-printable runes become \xNN / \uNNNN).
func sanitizeClass(s string) string {
	q := strconv.Quote(s)
	q = q[1 : len(q)-1]
	return strings.ReplaceAll(q, "\\\"", "\"")
}
