package main

func init() {
	register(&Property{
		ID: "C21",
		Jobs: func(tier string) []*Job {
			return []*Job{
				{Name: "notation-single", Pkg: "ti/builtin", Entry: "VerifNotation", N: 1, Budget: 400000, Reach: []string{"compared"},
					Asserts: []string{"C21-optional-return", "C21-default-argument", "C21-asterisk-argument", "C21-array", "C21-int-integer", "C21-optionalx", "C21-defaultx"}, Replay: "kernel", Cross: true,
					Bound: "type atom T ranges over every name in builtin.AllTypeNames plus Integer, a plain class and a namespaced class (a solver-chosen choice string); ?T / *T / [T] / Int / OptionalX / DefaultX equivalences, one level of notation"},
				{Name: "notation-pairs", Pkg: "ti/builtin", Entry: "VerifNotation", N: 2, Budget: 400000, Reach: []string{"compared-pairs"},
					Asserts: []string{"C21-union-return", "C21-union-argument"}, Replay: "kernel", Cross: true,
					Bound: "\"A|B\" vs [\"A\",\"B\"] for every ordered pair of atoms, as return type and as argument type"},
				func() *Job {
					j := f4Job("notation-sites", "VerifNotationSites", 0, []string{"ran"}, []string{"C21-sites"},
						"two generated classes with the same declarations, one written in compact notation (?T, [T], A|B, *T) and one with the named forms / is_default / is_asterisk flags, in every place of a configuration file that holds a type (positional and keyword arguments, return types, block parameters, constants, instance properties), loaded by the real loader; one program (block parameters, returns, ill-typed calls, constant, property) run against each class; outputs equal apart from the class name")
					j.Budget = 30000000
					return j
				}(),
			}
		},
		Custom:    replayNotationSites,
		Stubs:     f4Stubs,
		Functions: []string{"ti/builtin.loadBuiltinFromJSON", "ti/builtin.appendBlockParameters", "ti/builtin.parseTypeString", "ti/builtin.parseArguments", "ti/builtin.parseReturnType", "ti/builtin.ConvertToBuiltinT"},
		Assumptions: []string{"equality of the two notations is judged on the loader's output (every field of base.T the loader can set, recursively); equal T values make every later diagnostic, inferred type and rendered signature equal"},
		Outside:   "unions of more than 2 atoms, nested notations (?[T], [A|B]), is_conditional",
	})
}
