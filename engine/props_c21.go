package main

func init() {
	register(&Property{
		ID: "C21",
		Jobs: func(tier string) []*Job {
			return []*Job{
				{Name: "notation-single", Pkg: "ti/builtin", Entry: "VerifNotation", N: 1, Budget: 400000, Reach: []string{"compared"},
					Asserts: []string{"C21-optional-return", "C21-default-argument", "C21-asterisk-argument", "C21-array", "C21-int-integer", "C21-optionalx", "C21-defaultx"}, Replay: "kernel", Cross: true,
					Bound: "type atom T ranges over every name in builtin.AllTypeNames plus Integer, a plain class and a namespaced class (a solver-chosen choice string); ?T / *T / [T] / Int / OptionalX / DefaultX equivalences, one level of notation"},
				{Name: "notation-pairs", Pkg: "ti/builtin", Entry: "VerifNotation", N: 2, Budget: 400000, Reach: []string{"compared-pairs"},
					Asserts: []string{"C21-union-return", "C21-union-argument"}, Replay: "kernel", Cross: true,
					Bound: "\"A|B\" vs [\"A\",\"B\"] for every ordered pair of atoms, as return type and as argument type"},
			}
		},
		Functions: []string{"ti/builtin.parseTypeString", "ti/builtin.parseArguments", "ti/builtin.parseReturnType", "ti/builtin.ConvertToBuiltinT"},
		Assumptions: []string{"equality of the two notations is judged on the loader's output (every field of base.T the loader can set, recursively); equal T values make every later diagnostic, inferred type and rendered signature equal"},
		Outside:   "unions of more than 2 atoms, nested notations (?[T], [A|B]), is_conditional / block_parameters",
	})
}
