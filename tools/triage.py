#!/usr/bin/env python3
"""Run a check with -classes and print known_findings.json entries for every class that is
reported as VIOLATION (for review - entries are added by hand only after the defect has been
confirmed as genuine)."""
import subprocess, sys, json, re
pid = sys.argv[1]
extra = sys.argv[2:]
p = subprocess.run(["/verif/bin/vcheck", "-p", pid, "-classes"] + extra, capture_output=True)
out = p.stdout.decode("utf-8", "replace")
seen = {}
for line in out.splitlines():
    if line.startswith("CLASS "):
        parts = line[6:].split(" | ")
        cls = parts[0]
        status = re.search(r"status=(\S+)", parts[1]).group(1)
        if status == "VIOLATION" and cls not in seen:
            seen[cls] = parts[2] if len(parts) > 2 else ""
for cls, w in seen.items():
    print(json.dumps({"property": pid, "class": cls, "witness": w, "description": ""}, ensure_ascii=True) + ",")
print("# classes:", len(seen), file=sys.stderr)
print("\n".join(l for l in out.splitlines() if l.startswith(("job ", "VACUITY", "INCONCLUSIVE", "ENGINE", pid))), file=sys.stderr)
