#!/bin/bash
# verify_seed.sh <id>: confirm a seeded change in /tmp/wt_<id> + /tmp/seed_<id>: patch applies to a
# fresh worktree, builds, the 67 stable tests still pass; prints the demo command from meta.json.
set -u
id=$1
export GOFLAGS=-mod=mod GOPROXY=off
S=/tmp/seed_$id
W=/tmp/vs_$id
rm -rf $W; git -C /repo worktree prune; git -C /repo worktree add -q --detach $W HEAD || exit 1
cd $W && git apply $S/patch.diff || { echo "PATCH DOES NOT APPLY"; exit 1; }
go build ./... || { echo "BUILD FAILS"; exit 1; }
go test -vet=off -count=1 -json ./... 2>/dev/null | python3 -c "
import json,sys
passed=set()
for l in sys.stdin:
    try: e=json.loads(l)
    except: continue
    if e.get('Action')=='pass' and e.get('Test'): passed.add(e['Package']+'::'+e['Test'])
base=set(json.load(open('/root/.vp/BASELINE.json'))['stable_pass'])
print('stable missing:',len(base-passed),'passed:',len(passed))
"
go build -o $S/ti_mut_check . && echo "built mutant binary"
git -C /repo worktree remove --force $W
python3 -c "import json;m=json.load(open('$S/meta.json'));print('DEMO:',m.get('demo_cmd'));print('NEEDS:',m.get('needs'))"
