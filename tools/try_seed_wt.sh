#!/bin/bash
# try_seed_wt.sh <seed-dir> <property> [tier] [extra vcheck args]: run a check against a scratch
# worktree of /repo with the seeded change applied (VERIF_REPO), leaving /repo untouched; the
# final confirmation of a seed still uses try_seed.sh (git -C /repo apply).
S=$1; P=$2; T=${3:-quick}; shift 3 2>/dev/null
W=$(mktemp -d /tmp/tsw_XXXX); rmdir $W
git -C /repo worktree prune; git -C /repo worktree add -q --detach $W HEAD || exit 9
( cd $W && git apply $S/patch.diff ) || { echo "patch does not apply"; git -C /repo worktree remove --force $W; exit 9; }
cd /verif && VERIF_REPO=$W ${VCHECK:-./bin/vcheck} -p $P -tier $T -notv -noevidence "$@" 2>&1 | grep -a "^VIOLATION\|^   class\|^   witness\|quick:\|thorough:\|ENGINE\|INCONCL\|VACU" | cut -c1-250
git -C /repo worktree remove --force $W
