#!/bin/bash
# run_all.sh <tier> [ids...]: run every registered check (or the given ones) from /verif, print a one-line summary each.
tier=${1:-quick}; shift
ids="$@"
if [ -z "$ids" ]; then ids=$(python3 -c "import json;print(' '.join(c['property_id'] for c in json.load(open('/verif/MANIFEST.json'))['checks']))"); fi
cd /verif
for id in $ids; do
  start=$(date +%s)
  ./bin/vcheck -p $id -tier $tier > /tmp/run_$id.$tier.log 2>&1
  rc=$?
  end=$(date +%s)
  echo "$id rc=$rc $((end-start))s $(grep -a -c '^KNOWN-FINDING' /tmp/run_$id.$tier.log) known $(grep -a -c '^VIOLATION' /tmp/run_$id.$tier.log) viol | $(grep -a "^VACUITY\|^ENGINE\|^INCONCLUSIVE" /tmp/run_$id.$tier.log | head -3 | tr '\n' ';' | cut -c1-200)"
done
