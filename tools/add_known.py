#!/usr/bin/env python3
"""Merge reviewed triage entries (lines of JSON from tools/triage.py on stdin) into
known_findings.json. Usage: add_known.py <class-prefix> <description>  - only entries whose
class starts with the prefix are added, with the given description."""
import sys, json
prefix, desc = sys.argv[1], sys.argv[2]
kf = json.load(open('/verif/known_findings.json'))
have = {(f['property'], f['class']) for f in kf['findings']}
n = 0
for line in sys.stdin:
    line = line.strip().rstrip(',')
    if not line.startswith('{'):
        continue
    e = json.loads(line)
    if not e['class'].startswith(prefix) or (e['property'], e['class']) in have:
        continue
    e['description'] = desc
    kf['findings'].append(e)
    have.add((e['property'], e['class']))
    n += 1
json.dump(kf, open('/verif/known_findings.json', 'w'), indent=1, ensure_ascii=True)
print("added", n)
