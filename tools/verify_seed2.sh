#!/bin/bash
# verify_seed2.sh <id>: like verify_seed.sh for round-2 seeds in /tmp/seed${R:-2}_<id>
set -u
id=$1
export GOFLAGS=-mod=mod GOPROXY=off
S=/tmp/seed${R:-2}_$id
W=/tmp/vs${R:-2}_$id
rm -rf $W; git -C /repo worktree prune; git -C /repo worktree add -q --detach $W HEAD || exit 1
cd $W && git apply $S/patch.diff || { echo "PATCH DOES NOT APPLY"; git -C /repo worktree remove --force $W; exit 1; }
go build ./... || { echo "BUILD FAILS"; exit 1; }
go test -vet=off -count=1 -json ./... 2>/dev/null | python3 -c "
import json,sys
passed=set()
for l in sys.stdin:
    try: e=json.loads(l)
    except: continue
    if e.get('Action')=='pass' and e.get('Test'): passed.add(e['Package']+'::'+e['Test'])
base=set(json.load(open('/root/.vp/BASELINE.json'))['stable_pass'])
print('stable missing:',len(base-passed),'passed:',len(passed))
"
go build -o $S/ti_mut_check . && echo "built mutant binary"
cd /; git -C /repo worktree remove --force $W
(cd /repo && go build -o $S/ti_orig_check .)
$S/demo.sh $S/ti_orig_check >/dev/null 2>&1; o=$?; $S/demo.sh $S/ti_mut_check >/dev/null 2>&1; m=$?
echo "demo: orig=$o mut=$m"
