#!/bin/bash
# try_seed.sh <seed-dir> <property> [tier]: apply the seeded change to /repo, run the check, undo.
S=$1; P=$2; T=${3:-quick}
cd /repo && git status --short | grep -q . && { echo "/repo not clean"; exit 9; }
git -C /repo apply $S/patch.diff || { echo "patch does not apply"; exit 9; }
cd /verif && ./bin/vcheck -p $P -tier $T -notv 2>&1 | grep -a "^VIOLATION\|^   class\|^   witness\|quick:\|thorough:\|ENGINE\|INCONCL\|VACU" | cut -c1-250
git -C /repo checkout -- . ; git -C /repo status --short
