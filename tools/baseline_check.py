#!/usr/bin/env python3
"""Run the repository's test suite (hooks off; /verif adds no hooks to /repo) and compare the
stable-pass set with /root/.vp/BASELINE.json."""
import json, subprocess, sys, os
env = dict(os.environ, GOFLAGS="-mod=mod", GOPROXY="off")
p = subprocess.run(["go", "test", "-json", "-vet=off", "-count=1", "-timeout", "25m", "./..."], cwd="/repo", capture_output=True, text=True, env=env)
passed = set()
for line in p.stdout.splitlines():
    try:
        e = json.loads(line)
    except Exception:
        continue
    if e.get("Action") == "pass" and e.get("Test"):
        passed.add(e["Package"] + "::" + e["Test"])
base = json.load(open("/root/.vp/BASELINE.json"))
stable = set(base["stable_pass"])
missing = sorted(stable - passed)
print(f"stable={len(stable)} passed_now={len(passed)} stable_missing={len(missing)}")
for m in missing[:20]:
    print("  MISSING", m)
sys.exit(1 if missing else 0)
