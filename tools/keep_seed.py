#!/usr/bin/env python3
"""keep_seed.py <seed-dir> <name> <property> <caught-by / missed text>: archive a confirmed seeded
change under /verif/seeded/<name>/ (patch.diff, demonstration, meta.json)."""
import sys, os, json, shutil
src, name, prop, verdict = sys.argv[1], sys.argv[2], sys.argv[3], sys.argv[4]
dst = f"/verif/seeded/{name}"
os.makedirs(dst, exist_ok=True)
shutil.copy(f"{src}/patch.diff", f"{dst}/patch.diff")
meta = json.load(open(f"{src}/meta.json"))
for f in os.listdir(src):
    p = os.path.join(src, f)
    if os.path.isfile(p) and os.path.getsize(p) < 200000 and not f.startswith(("ti_", "rbs2json_", "pass_", "test_", "out_")) and f not in ("patch.diff", "meta.json") and not f.endswith((".out", ".bin")):
        shutil.copy(p, os.path.join(dst, f))
    if os.path.isdir(p) and f in ("demo_cfg", "base-config", "fakebin"):
        shutil.copytree(p, os.path.join(dst, f), dirs_exist_ok=True, symlinks=True)
out = {
    "property": prop,
    "breaks": meta.get("summary"),
    "needs_to_manifest": meta.get("needs"),
    "demonstration": meta.get("demo_cmd"),
    "origin": "written by an independent sub-agent that saw only the property text and its own scratch worktree",
    "confirmed_by_me": "patch applied to a fresh scratch worktree of /repo HEAD: builds, the 67 stable baseline tests still pass, the agent's demonstration exits 0 on the original binary and non-zero on the mutant; corpus outputs unchanged per the agent's report (%s differing)" % meta.get("corpus_diffs"),
    "my_checks": verdict,
}
json.dump(out, open(f"{dst}/meta.json", "w"), indent=1)
print("kept", dst, os.listdir(dst))
