#!/usr/bin/env python3
"""Generates /verif/MANIFEST.json from tools/manifest_src.json (claimed checks) and
properties.jsonl (every property not claimed is listed under not_applicable)."""
import json
src = json.load(open('/verif/tools/manifest_src.json'))
props = [json.loads(l) for l in open('/verif/properties.jsonl')]
claimed = {c['property_id'] for c in src['checks']}
checks = []
for c in src['checks']:
    pid = c['property_id']
    checks.append({
        "property_id": pid,
        "quick_cmd": f"./bin/vcheck -p {pid} -tier quick",
        "thorough_cmd": f"./bin/vcheck -p {pid} -tier thorough",
        "evidence_file": f"/verif/evidence/{pid}.json",
        "replay_cmd_template": "cat {path}/counterexample.json   # inputs, model and the native replay command of the counterexample",
        "engine": "symgo",
        "level_claimed": {"category": "model_checking", "text": c['text'], "design_ref": c.get('design_ref', 'DESIGN.md §3')},
        "level_note": c['note'],
        "technique": c.get('technique', "bounded symbolic execution of the real code's go/ssa with SMT (z3) deciding every branch and assertion; counterexamples replayed natively"),
    })
na = []
for p in props:
    if p['id'] not in claimed:
        na.append({"property_id": p['id'], "reason": src['not_applicable'].get(p['id'], "harness not built yet in this session; not claimed")})
m = {
    "version": 1,
    "setup_cmd": "cd /verif/engine && GOFLAGS=-mod=mod GOPROXY=off go build -o /verif/bin/vcheck .",
    "hooks": {"guard": "verif", "enable": "no source hooks: harness code is injected into /repo's packages with go/packages Overlay (symbolic run) and `go test -overlay` (native replay); /repo is never written", "baseline_off_cmd": "python3 /verif/tools/baseline_check.py", "source_commits": [], "add_only": True},
    "engines": [{"name": "symgo", "path": "/verif/engine", "serves_properties": sorted(claimed), "kind_free_text": "own bounded symbolic executor over go/ssa of /repo (regenerated every run) + z3 -in (push/pop), native replay, corpus translator validation"}],
    "checks": checks,
    "notes": src.get('notes', ''),
    "not_applicable": na,
}
json.dump(m, open('/verif/MANIFEST.json', 'w'), indent=1)
print("checks:", len(checks), "not_applicable:", len(na))
